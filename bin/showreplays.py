#!/usr/bin/env python3
"""Summarises replay files: one (the smallest) per violation class."""
import json, glob, sys, os
best = {}
for f in glob.glob(os.path.join(sys.argv[1] if len(sys.argv) > 1 else '/verif/replays', '*.json')):
    try:
        c = json.load(open(f))
    except Exception:
        continue
    v = c.get('violation') or {}
    key = (v.get('property'), v.get('class'))
    n = sum(len(o or []) for o in (c.get("tasks") or {}).values()) if c.get("tasks") else 10**6
    if key not in best or n < best[key][0]:
        best[key] = (n, f, c)
for key, (n, f, c) in sorted(best.items(), key=lambda kv: str(kv[0])):
    print('==', key, f)
    print('  cfg:', json.dumps(c.get('cfg')))
    for t, ops in sorted((c.get('tasks') or {}).items()):
        ops = ops or []
        print('  %s: %s' % (t, ' '.join('%s(%s%s)' % (o['k'], o.get('a', ''), (',%s' % o['b']) if 'b' in o else '') for o in ops[:60])), '...' if len(ops) > 60 else '')
    if c.get('faults'): print('  faults:', c['faults'])
    if c.get('crash'): print('  crash:', c['crash'])
    if c.get('damage'): print('  damage:', c['damage'])
    print('  schedule steps:', len(c.get('schedule') or []), 'loose' if c.get('loose_schedule') else 'strict')
    print('  msg:', (c.get('violation') or {}).get('msg', '')[:700])
