#!/usr/bin/env python3
"""Generates /verif/MANIFEST.json from the table below and the list of
properties the simulator binary registers (bin/simcheck list)."""
import json, subprocess, os, sys

ROOT = os.path.dirname(os.path.dirname(os.path.abspath(__file__)))

CHECKS = {
 "C01": dict(level="fault_enumeration", ref="6/C01", technique="deterministic simulation: crash-image enumeration (every I/O boundary x subsets of un-synced writes x header tears) over seeded transaction histories, recovery oracle against reference model",
   text="Every simulated history is cut at every op-log index; for each cut the pending (un-synced) writes are enumerated exhaustively up to 8 pending ops and sampled above, header writes are torn at field boundaries; each image is opened with the real engine and must equal exactly the last committed model state (or the in-progress commit's state) identified by header txid, then a continuation workload must run without touching recovered pages; for some continued images (preferably with a torn header) the continuation is cut by a second crash enumeration. Sampling over histories/configs, exhaustive per history in the crash index.",
   note="Assumes page-granular atomic writes (only the 84-byte header may tear), sync makes all earlier writes durable, truncate is a droppable ordered metadata op. Simulated vfs.File replaces osfs."),
 "C02": dict(level="exploration", ref="6/C02", technique="deterministic simulation: seeded schedule exploration of one writer and several readers with per-reader snapshot oracle",
   text="Readers and a writer run as cooperative tasks; the PRNG picks who runs at every txfile hook and disk call. Every reader must observe, twice, exactly one committed model state within the window allowed by the begin/commit event order; poisoned unmapped views expose use-after-remap.",
   note="Interleavings only at yield points (hooks + disk calls). Seeded sampling; per-run scheduling policy (stickiness, background weight) and task starvation episodes (a task woken from a condition wait is held back until another task reaches a drawn yield point)."),
 "C03": dict(level="exploration", ref="6/C03", technique="deterministic simulation: model-based differential execution of seeded transaction histories under scheduler-controlled writer batching",
   text="Seeded histories of all page/transaction operations (incl. handles fetched long before use, overflow-enabled fill-to-the-brim transactions, a rare huge-checkpoint variant) run against the real engine on a simulated disk and against a map-based reference model; reads inside the write transaction, after every transaction and after reopen must equal the model byte for byte. The scheduler starves or favours the background writer so that batches of queued writes vary.",
   note="Seeded sampling of histories, configurations and writer timings; simulated vfs.File replaces osfs."),
 "C04": dict(level="exploration", ref="6/C04", technique="deterministic simulation: ownership monitor on every allocation plus allocator partition invariant after every transaction of seeded histories (incl. rollback, failed commit, reopen, overflow area)",
   text="Every id returned by Alloc/AllocN is checked against the model's live set, the running transaction, pages freed by it and the engine's internal page sets; after every transaction the allocator snapshot must partition the file without overlap.",
   note="Snapshot hook reads allocator/WAL state (verif tag). Seeded sampling."),
 "C05": dict(level="exploration", ref="6/C05", technique="deterministic simulation: model-based differential execution of the queue Writer/Reader/ACK API with boundary-biased event sizes",
   text="Seeded producer/consumer histories with boundary-biased event sizes, arbitrary write chunking and partial reads; the i-th delivered event must be byte-identical to the i-th appended event; visibility bounded by flush events.",
   note="Seeded sampling; queue runs on real txfile over simulated disk."),
 "C06": dict(level="fault_enumeration", ref="6/C06", technique="deterministic simulation: crash-image enumeration over seeded queue histories, drained queue compared with event model window",
   text="Queue histories are cut at every I/O boundary with pending-write subsets; every 12th recovered queue is used further (produce/consume/ACK/reopen with the FIFO and counter oracles); the reopened queue must contain exactly events [a,b) with a/b in the windows allowed by completed and in-progress ACKs/flushes.",
   note="Same disk assumptions as C01."),
 "C07": dict(level="exploration", ref="6/C07", technique="deterministic simulation: twin execution (history with vs without an aborted transaction) comparing state, free page sets and continuation outcomes",
   text="Run A executes prefix, an aborted transaction (rollback/close/commit failing from out of space or from a write error/short write injected right before that commit) and a continuation; run B omits the aborted transaction. Readable state, free-page sets, end markers, meta totals, continuation outcomes and post-reopen state must be identical.",
   note="Free space compared as page sets. Seeded sampling."),
 "C08": dict(level="fault_enumeration", ref="6/C08", technique="deterministic simulation: I/O fault plans (kind x call index x burst) aimed at calls of a dry run; model oracle, durable-image oracle, deadlock detection, bounded liveness",
   text="Write/short-write/sync/truncate/size/mmap/munmap/unlock failures are injected at chosen call indices with bursts, incl. two scenarios aimed at the open-time steps of size-changing opens, SyncNone configurations and reopen right after failed commits; operations must fail cleanly, transactions keep seeing the last committed state, successful commits are durable, a commit whose failure is not its final sync writes no complete header, aborted transactions leave the allocator unchanged, the allocator state on disk after a clean close equals the one in memory, and after faults stop a commit succeeds within two attempts; reopen shows the committed state or a complete later attempt whose only failure was the final sync.",
   note="Fault kinds limited to the vfs.File surface; no crash+error combination."),
 "C09": dict(level="exploration", ref="6/C09", technique="deterministic simulation: seeded schedule exploration of readers/writers/closer with deadlock detection, writer mutual exclusion monitor and idle-lock invariant; race clause by labelled -race side mode",
   text="N readers, M writers and an optional closer run under the seeded scheduler; at most one write transaction may be active, the scheduler must never find unfinished tasks with nothing runnable, and whenever no transaction is open the lock state must be idle; open-time maintenance transactions are included.",
   note="Data-race clause is checked by a free-running -race side mode (not schedule-replayable)."),
 "C10": dict(level="exploration", ref="6/C10", technique="deterministic simulation: twin execution with generated clean restarts, comparing allocator snapshots, contents and subsequent outcomes",
   text="The same program runs once without and once with Close+Open at seeded points; snapshots before close and after open, all contents, capacity probes and subsequent operation outcomes must agree, including multi-page freelists and WAL mappings.",
   note="Seeded sampling with mixes biased to large/fragmented states."),
 "C11": dict(level="exploration", ref="6/C11", technique="deterministic simulation: conservation invariant (capacity probe, partition coverage, extent, stats) at every quiescent point of long seeded histories",
   text="On bounded files without overflow the capacity probe plus live plus meta area plus two headers must equal max pages at every quiescent point, also after reopens that raise the limit; the partition must cover the file; the simulated file never exceeds max size; FileStats match the snapshot.",
   note="Capacity measured by allocating until OutOfMemory inside a rolled-back transaction."),
 "C12": dict(level="exploration", ref="6/C12", technique="deterministic simulation: fill/drain cycles of the queue on small bounded simulated files with event model, space bound and no-drift oracle",
   text="Producer fills until error, consumer drains and ACKs, some reopens change the file limit (FlagUpdMaxSize); FIFO/byte-exact delivery, reads and ACKs succeed on a full file, flush succeeds after space is freed, and allocated pages stay within the un-ACKed events plus a constant with no drift across cycles.",
   note="Constant is generous; drift check is the sharp detector."),
 "C13": dict(level="exploration", ref="6/C13", technique="deterministic simulation: two-task schedule exploration of producer and consumer with FIFO oracle and porcupine linearizability check of the recorded history",
   text="Producer and consumer tasks interleave at every hook and disk call; the consumer must see the produced sequence; the Flush/Next/ACK history must linearize against a sequential counter model; no deadlock.",
   note="Race clause via -race side mode."),
 "C14": dict(level="exploration", ref="6/C14", technique="deterministic simulation: reopen with changed max size inside seeded histories, model oracle, idle-lock/liveness check and crash images of the open-time transactions",
   text="Prior history (a quarter of the bounded runs with metadata in the overflow area past the limit), reopen with FlagUpdMaxSize (grow/shrink/unbounded, prealloc), further history and a plain reopen; contents intact, Begin/BeginReadonly do not block, capacity changes by exactly the added pages, extent respects the shrunken limit.",
   note="Seeded sampling of (old,new,prealloc) combinations."),
 "C15": dict(level="exploration", ref="6/C15", technique="deterministic simulation: exhaustive misuse matrix injected at seeded points of simulated histories (incl. fault-induced receiver states), with no-panic/no-block/no-change oracle",
   text="At seeded points the full method x receiver-state matrix (incl. handles of freed pages fetched again) is executed under recover; each cell must return the documented error kind, not panic or block, and leave model state, running transaction and lock state unchanged.",
   note="Only error-returning methods are judged."),
 "C16": dict(level="fault_enumeration", ref="6/C16", technique="deterministic simulation: stored-byte fault enumeration (all single-bit flips, all prefix tears, zeroing, scribbles) of either header on images of seeded histories",
   text="For images taken after commits, every single-bit flip and byte-prefix tear of each header slot plus zeroing, field-aware damage, a copy of the other slot and random scribbles are applied; open must yield the state of the intact header, the newer one if both intact, or an error if both damaged; never a panic.",
   note="Checksum-valid scribbles are skipped and counted."),
 "C17": dict(level="exploration", ref="6/C17", technique="deterministic simulation: counter oracle after every step of seeded queue histories including reopen",
   text="After every queue operation Pending/Active/Available and the Flushed/ACKed callback totals are compared with the event model; also after reopen, after flushes failing from out of space or from an injected write error, with and without a statistics Observer, and with event ids near 2^63/2^64.",
   note="Seeded sampling."),
 "C18": dict(level="exploration", ref="6/C18", technique="seeded open/close/failing-open histories with injected init faults against a one-bit lock model on the real file system",
   text="Sequences of open, failing open (invalid options, damaged headers, injected I/O failure) and close on one path; after every close or failed open an immediate open must succeed; concurrent open fails with a lock error or waits; an Open left by a panic of the Observer releases the lock; with two waiters of which one fails after locking the path stays locked for the other.",
   note="Uses real flock; the only non-simulated seam."),
}

PENDING_REASON = "check not built yet in this round (planned, see DESIGN.md section 6); not claimed"

def main():
    try:
        out = subprocess.run([os.path.join(ROOT, "bin/simcheck"), "list"], capture_output=True, text=True).stdout.split()
    except Exception:
        out = []
    claimed = [p for p in sorted(CHECKS) if p in out]
    hooks = subprocess.run(["git", "-C", "/repo", "log", "--format=%H %s"], capture_output=True, text=True).stdout.splitlines()
    hook_commits = [l.split()[0] for l in hooks if " verif hooks" in l]
    m = {
        "version": 1,
        "setup_cmd": "bin/build",
        "hooks": {
            "guard": "verif",
            "enable": "go build tag: bin/build runs `go1.26.8 test -c -tags verif` on the harness module whose go.mod replaces github.com/elastic/go-txfile by /repo",
            "baseline_off_cmd": "cd /repo && go test -mod=mod -vet=off -count=1 -timeout 25m ./...",
            "source_commits": hook_commits,
            "add_only": True,
        },
        "engines": [{
            "name": "simcheck",
            "path": "sim/",
            "serves_properties": claimed,
            "kind_free_text": "deterministic simulation: seeded cooperative scheduler over real goroutines in a testing/synctest bubble, simulated disk with op log/crash images/fault plans, reference models, shrinking replay files",
        }],
        "checks": [],
        "not_applicable": [],
        "notes": "All checks: exit 0 = held, 1 = VIOLATION line printed, 2 = harness/tool trouble. VERIF_SEED selects the seed stream, VERIF_SECONDS overrides the time budget, VERIF_WORKERS the number of worker processes.",
    }
    for p in sorted(CHECKS):
        c = CHECKS[p]
        if p in claimed:
            m["checks"].append({
                "property_id": p,
                "quick_cmd": "bin/check %s quick" % p,
                "thorough_cmd": "bin/check %s thorough" % p,
                "evidence_file": "/verif/evidence/%s.json" % p,
                "replay_cmd_template": "bin/simcheck replay {path}",
                "engine": "simcheck",
                "level_claimed": {"category": c["level"], "text": c["text"], "design_ref": "DESIGN.md section " + c["ref"]},
                "level_note": c["note"],
                "technique": c["technique"],
            })
        else:
            m["not_applicable"].append({"property_id": p, "reason": PENDING_REASON})
    json.dump(m, open(os.path.join(ROOT, "MANIFEST.json"), "w"), indent=1)
    print("claimed:", " ".join(claimed))

main()
