// Package simsched implements a cooperative, seeded scheduler on top of real
// goroutines running inside a testing/synctest bubble.
//
// Exactly one registered goroutine is runnable at any time. Goroutines park at
// yield points (hooks inside txfile, calls into the simulated disk, and explicit
// yields of the harness). The scheduler waits for quiescence (synctest.Wait),
// collects all parked goroutines whose ready predicate holds and releases one of
// them, chosen by a PRNG (or by a recorded schedule when replaying).
package simsched

import (
	"fmt"
	"runtime"
	"sort"
	"strings"
	"sync"
	"testing/synctest"
)

// Rand is a small deterministic PRNG (splitmix64).
type Rand struct{ s uint64 }

func NewRand(seed uint64) *Rand { return &Rand{s: seed} }

func (r *Rand) Uint64() uint64 {
	r.s += 0x9e3779b97f4a7c15
	z := r.s
	z = (z ^ (z >> 30)) * 0xbf58476d1ce4e5b9
	z = (z ^ (z >> 27)) * 0x94d049bb133111eb
	return z ^ (z >> 31)
}

// Intn returns a value in [0,n). n must be > 0.
func (r *Rand) Intn(n int) int {
	if n <= 0 {
		panic("Intn: n <= 0")
	}
	return int(r.Uint64() % uint64(n))
}

func (r *Rand) Float() float64 { return float64(r.Uint64()>>11) / float64(1<<53) }

// Chance returns true with probability p.
func (r *Rand) Chance(p float64) bool { return r.Float() < p }

// Split derives an independent generator.
func (r *Rand) Split() *Rand { return NewRand(r.Uint64() ^ 0xa5a5a5a5deadbeef) }

// Mix hashes values into one seed.
func Mix(vs ...uint64) uint64 {
	h := uint64(0x243f6a8885a308d3)
	for _, v := range vs {
		h ^= v
		h *= 0x100000001b3
		h = (h ^ (h >> 29)) * 0xbf58476d1ce4e5b9
		h ^= h >> 32
	}
	return h
}

// Step is one scheduling decision.
type Step struct {
	Task  string `json:"t"`
	Point string `json:"p"`
}

type task struct {
	name    string
	ch      chan struct{}
	parked  bool
	point   string
	ready   func() bool
	harness bool
	done    bool
}

// Config tunes a scheduler instance.
type Config struct {
	Stick    float64 // probability to keep running the last task when it is ready
	BgWeight float64 // relative weight of background (engine) goroutines; 1 = same as tasks
	MaxSteps int     // hard cap on scheduling steps (0 = default)
	// Starve > 0: at each pick, with this probability, one runnable harness task is
	// set aside for up to StarveLen picks (it still runs when nothing else can), so
	// that another task can get through a long stretch of engine code (a whole
	// Begin..Commit) while the starved one sits right behind a wake-up.
	Starve    float64
	StarveLen int
	Replay   []string // recorded task choices; when set, choices follow the recording
	// ReplayLoose: when a recorded choice is not available fall back to the default
	// policy (continue last task, else lowest name) instead of failing.
	ReplayLoose bool
}

// Sched is the scheduler.
type Sched struct {
	cfg   Config
	rng   *Rand
	mu    sync.Mutex
	tasks map[int64]*task
	all   []*task
	nbg   int
	last  *task

	Trace   []Step
	Choices []string // chosen task per step (the schedule)
	steps   int
	seq     uint64
	sinceHarness int
	starved      *task
	starveLeft   int
	Starved      int // number of starvation episodes started
	starveUntil    string
	StarveReleased int // episodes ended by the targeted release

	// statistics
	Switches int
	PointCnt map[string]int

	panics []string

	// Invariant, if set, is evaluated at every scheduling step (all goroutines
	// blocked) with the number of parked engine background goroutines.
	Invariant func(parkedBg int) error
}

// ErrInvariant is reported when the scheduler invariant fails.
type ErrInvariant struct{ Msg string }

func (e *ErrInvariant) Error() string { return e.Msg }

// ErrDeadlock is reported when unfinished tasks exist but nothing is runnable.
type ErrDeadlock struct{ State string }

func (e *ErrDeadlock) Error() string { return "deadlock: " + e.State }

// ErrBudget is reported when the step budget is exhausted.
type ErrBudget struct{ Steps int }

func (e *ErrBudget) Error() string {
	return fmt.Sprintf("step budget exhausted: %d consecutive scheduling steps inside the code under test without any API call returning", e.Steps)
}

func enginePoint(p string) bool {
	for _, pre := range []string{"commit:", "tx:", "begin:", "close:", "cond:", "writer:", "sync:", "disk:"} {
		if strings.HasPrefix(p, pre) {
			return true
		}
	}
	return false
}

// ErrReplay is reported when a recorded schedule can not be followed.
type ErrReplay struct{ Msg string }

func (e *ErrReplay) Error() string { return "replay diverged: " + e.Msg }

func New(rng *Rand, cfg Config) *Sched {
	if cfg.MaxSteps == 0 {
		cfg.MaxSteps = 100000
	}
	if cfg.BgWeight == 0 {
		cfg.BgWeight = 1
	}
	return &Sched{cfg: cfg, rng: rng, tasks: map[int64]*task{}, PointCnt: map[string]int{}}
}

func goid() int64 {
	var buf [64]byte
	n := runtime.Stack(buf[:], false)
	// "goroutine 123 [running]:"
	s := buf[10:n]
	var id int64
	for _, c := range s {
		if c < '0' || c > '9' {
			break
		}
		id = id*10 + int64(c-'0')
	}
	return id
}

// NextSeq returns the next global event sequence number.
func (s *Sched) NextSeq() uint64 {
	s.mu.Lock()
	s.seq++
	v := s.seq
	s.mu.Unlock()
	return v
}

// Steps returns the number of scheduling steps executed so far.
func (s *Sched) Steps() int { return s.steps }

// Go starts a harness task. The task does not run before the scheduler selects it.
func (s *Sched) Go(name string, fn func()) {
	t := &task{name: name, ch: make(chan struct{}), harness: true, parked: true, point: "start"}
	s.mu.Lock()
	s.all = append(s.all, t)
	s.mu.Unlock()
	go func() {
		id := goid()
		s.mu.Lock()
		s.tasks[id] = t
		s.mu.Unlock()
		<-t.ch
		defer func() {
			if r := recover(); r != nil {
				buf := make([]byte, 16<<10)
				n := runtime.Stack(buf, false)
				s.mu.Lock()
				s.panics = append(s.panics, fmt.Sprintf("task %s panicked: %v\n%s", name, r, buf[:n]))
				s.mu.Unlock()
			}
			s.mu.Lock()
			t.done = true
			delete(s.tasks, id)
			s.mu.Unlock()
		}()
		fn()
	}()
}

// CurrentName returns the logical name of the calling goroutine ("" if unknown).
func (s *Sched) CurrentName() string {
	id := goid()
	s.mu.Lock()
	defer s.mu.Unlock()
	if t := s.tasks[id]; t != nil {
		return t.name
	}
	return ""
}

// Yield parks the calling goroutine until the scheduler selects it again.
func (s *Sched) Yield(point string) { s.YieldUntil(point, nil) }

// YieldUntil parks the calling goroutine until ready reports true and the
// scheduler selects it. ready is evaluated by the scheduler goroutine while all
// other goroutines are blocked.
func (s *Sched) YieldUntil(point string, ready func() bool) {
	id := goid()
	s.mu.Lock()
	t := s.tasks[id]
	if t == nil {
		// engine background goroutine (the File's writer): register on first yield
		t = &task{name: fmt.Sprintf("bg%d", s.nbg), ch: make(chan struct{})}
		s.nbg++
		s.tasks[id] = t
		s.all = append(s.all, t)
	}
	t.parked, t.point, t.ready = true, point, ready
	s.mu.Unlock()
	<-t.ch
}

// Panics returns the panic reports of tasks.
func (s *Sched) Panics() []string {
	s.mu.Lock()
	defer s.mu.Unlock()
	return append([]string(nil), s.panics...)
}

func (s *Sched) describe() string {
	var sb strings.Builder
	for _, t := range s.all {
		switch {
		case t.done:
			continue
		case t.parked:
			rd := "ready"
			if t.ready != nil && !t.ready() {
				rd = "not-ready"
			}
			fmt.Fprintf(&sb, "%s:parked@%s(%s) ", t.name, t.point, rd)
		default:
			fmt.Fprintf(&sb, "%s:blocked-inside-after@%s ", t.name, t.point)
		}
	}
	return strings.TrimSpace(sb.String())
}

// Run executes the scheduling loop until all harness tasks have finished.
// Must be called from the bubble's root goroutine.
func (s *Sched) Run() error {
	for {
		synctest.Wait()
		s.mu.Lock()
		var cands []*task
		unfinished := 0
		for _, t := range s.all {
			if t.harness && !t.done {
				unfinished++
			}
			if t.done || !t.parked {
				continue
			}
			if t.ready != nil && !t.ready() {
				continue
			}
			cands = append(cands, t)
		}
		if s.Invariant != nil {
			n := 0
			for _, t := range s.all {
				if !t.harness && !t.done && t.parked {
					n++
				}
			}
			if err := s.Invariant(n); err != nil {
				s.mu.Unlock()
				return &ErrInvariant{Msg: err.Error()}
			}
		}
		if len(s.panics) > 0 {
			p := s.panics[0]
			s.mu.Unlock()
			return fmt.Errorf("%s", p)
		}
		if unfinished == 0 {
			s.mu.Unlock()
			return nil
		}
		if len(cands) == 0 {
			st := s.describe()
			s.mu.Unlock()
			return &ErrDeadlock{State: st}
		}
		if s.sinceHarness >= s.cfg.MaxSteps {
			s.mu.Unlock()
			return &ErrBudget{Steps: s.sinceHarness}
		}
		sort.Slice(cands, func(i, j int) bool { return cands[i].name < cands[j].name })
		var pick *task
		if s.cfg.Replay != nil {
			if s.steps < len(s.cfg.Replay) {
				want := s.cfg.Replay[s.steps]
				for _, c := range cands {
					if c.name == want {
						pick = c
					}
				}
				if pick == nil && !s.cfg.ReplayLoose {
					s.mu.Unlock()
					return &ErrReplay{Msg: fmt.Sprintf("step %d: recorded task %q not runnable (%s)", s.steps, want, s.describe())}
				}
			}
			if pick == nil {
				pick = s.defaultPick(cands)
			}
		} else {
			pick = s.randomPick(cands)
		}
		if s.last != pick {
			s.Switches++
		}
		s.last = pick
		pick.parked = false
		s.steps++
		// bounded liveness: count scheduling steps that happen inside the code
		// under test (hook and disk yield points) since the last step at which a
		// harness task was between two API calls
		if enginePoint(pick.point) {
			s.sinceHarness++
		} else {
			s.sinceHarness = 0
		}
		s.Trace = append(s.Trace, Step{pick.name, pick.point})
		s.Choices = append(s.Choices, pick.name)
		s.PointCnt[pick.point]++
		s.mu.Unlock()
		pick.ch <- struct{}{}
	}
}

func (s *Sched) defaultPick(cands []*task) *task {
	for _, c := range cands {
		if c == s.last {
			return c
		}
	}
	return cands[0]
}

// Tune changes the scheduling policy of a running scheduler (called by a task
// that draws its configuration inside the simulated program).
func (s *Sched) Tune(stick, bgWeight, starve float64, starveLen int) {
	s.mu.Lock()
	defer s.mu.Unlock()
	s.cfg.Stick, s.cfg.Starve, s.cfg.StarveLen = stick, starve, starveLen
	if bgWeight > 0 {
		s.cfg.BgWeight = bgWeight
	}
}

func (s *Sched) randomPick(cands []*task) *task {
	if s.cfg.Starve > 0 {
		// a task that has just been woken from a condition wait is the classic victim:
		// the OS may run it arbitrarily late, after the condition stopped holding again
		if s.starveLeft == 0 && len(cands) > 1 {
			var woken []*task
			for _, c := range cands {
				if c.harness && c.point == "cond:wake" && c != s.starved {
					woken = append(woken, c)
				}
			}
			if len(woken) > 0 && s.rng.Chance(0.5) {
				s.starved = woken[s.rng.Intn(len(woken))]
				s.starveLeft = 1 + s.rng.Intn(400)
				s.starveUntil = ""
				if s.rng.Chance(0.7) {
					// release when some other task reaches one of the yield points seen so far
					var pts []string
					for p := range s.PointCnt {
						if enginePoint(p) && p != "cond:wake" {
							pts = append(pts, p)
						}
					}
					sort.Strings(pts)
					if len(pts) > 0 {
						s.starveUntil = pts[s.rng.Intn(len(pts))]
					}
				}
				s.Starved++
			}
		}
		if s.starveLeft == 0 && len(cands) > 1 && s.rng.Chance(s.cfg.Starve) {
			var hs []*task
			for _, c := range cands {
				if c.harness {
					hs = append(hs, c)
				}
			}
			if len(hs) > 0 {
				n := s.cfg.StarveLen
				if n <= 0 {
					n = 40
				}
				s.starved = hs[s.rng.Intn(len(hs))]
				s.starveLeft = 1 + s.rng.Intn(n)
				s.Starved++
			}
		}
		if s.starveLeft > 0 && s.starveUntil != "" {
			// targeted release: the starved task runs as soon as another task is
			// parked at the chosen yield point
			hit, in := false, false
			for _, c := range cands {
				if c == s.starved {
					in = true
				} else if c.point == s.starveUntil {
					hit = true
				}
			}
			if hit && in {
				s.starveLeft, s.starveUntil = 0, ""
				s.StarveReleased++
				return s.starved
			}
		}
		if s.starveLeft > 0 {
			s.starveLeft--
			var rest []*task
			for _, c := range cands {
				if c != s.starved {
					rest = append(rest, c)
				}
			}
			if len(rest) > 0 {
				cands = rest
			}
		}
	}
	if len(cands) == 1 {
		// still draw, so that the PRNG stream does not depend on candidate counts only
		s.rng.Uint64()
		return cands[0]
	}
	if s.last != nil && s.cfg.Stick > 0 {
		for _, c := range cands {
			if c == s.last {
				if s.rng.Chance(s.cfg.Stick) {
					return c
				}
				break
			}
		}
	}
	total := 0.0
	for _, c := range cands {
		if c.harness {
			total += 1
		} else {
			total += s.cfg.BgWeight
		}
	}
	x := s.rng.Float() * total
	for _, c := range cands {
		w := 1.0
		if !c.harness {
			w = s.cfg.BgWeight
		}
		if x < w {
			return c
		}
		x -= w
	}
	return cands[len(cands)-1]
}

// ReleaseAll releases every parked background goroutine once (used at the end of
// a run so that goroutines which are about to exit can do so).
func (s *Sched) Drain(max int) {
	for i := 0; i < max; i++ {
		synctest.Wait()
		s.mu.Lock()
		var pick *task
		for _, t := range s.all {
			if !t.done && t.parked && (t.ready == nil || t.ready()) {
				pick = t
				break
			}
		}
		if pick == nil {
			s.mu.Unlock()
			return
		}
		pick.parked = false
		s.mu.Unlock()
		pick.ch <- struct{}{}
	}
}
