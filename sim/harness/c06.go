package harness

import (
	"bytes"
	"fmt"

	txfile "github.com/elastic/go-txfile"
	"github.com/elastic/go-txfile/pq"

	"verifsim/simdisk"
	"verifsim/simsched"
)

// pqWindow is one producer call or ACK call with the model counters around it.
type pqWindow struct {
	begin, end    int // op-log indices of the markers (end = -1 while running)
	ack           bool
	flushedBefore int // Flushed callback total before the call
	flushedAfter  int // ... after the call (valid once end >= 0)
	mayPublish    int // events published if a flush happens inside the call
	ackedBefore   int
	ackN          int
	ackOK         bool
}

func init() {
	probeNames["C06"] = []string{"image_nonempty_pending", "crash_in_flush", "crash_in_ack", "recovered_with_inprogress_flush", "recovered_with_inprogress_ack", "redelivered_unacked", "pq_reopen", "torn_header", "big_flush", "continued_after_recovery"}
	register(&PropDef{
		ID: "C06", Level: "fault_enumeration", QuickSec: 55, ThoroSec: 1200,
		Rule: "each run = one seeded queue history (<=60 events, producer/consumer/ACK/clean reopen) on the simulated disk; evaluations = crash images: for EVERY op-log index after queue creation x subsets of the un-synced writes (all subsets up to 5 quick / 7 thorough pending ops, sampled above) x header tears; each image is opened by the real engine (file, standalone delegate, queue) and drained with the real reader. Oracle: the drained sequence is exactly model events [a,b), byte-identical and in order, with a in {ACKed total of completed ACKs} + {+n of an ACK in progress at the crash} and b in {events published by completed producer calls} + {events an in-progress producer call may publish}; Pending == b-a; every 12th image (and the final one) is then used further: a 24-operation producer/consumer/ACK/reopen history with the C05/C17 oracles runs on the recovered queue, followed by flush and drain. The enumeration of the run in progress when the batch budget ends is cut short. Non-trivial = image with at least one pending op taken inside a producer or ACK call; distinct = (run, crash index, kept subset, tear).",
		Real: defaultReal, Stub: defaultStub, Assume: defaultAssume,
		FaultKinds: []string{"crash at every I/O boundary", "lost un-synced page writes (subset enumeration)", "torn header write", "clean close/reopen"},
		Body: c06Body,
	})
}

func c06Body(e *Env) {
	c := e.Case
	rng := e.Rng("c06")
	var wins []*pqWindow
	var cur *pqWindow
	logStart := -1
	var initImg []byte
	nops := 15 + rng.Intn(60)
	if c.Tier == "thorough" {
		nops = 30 + rng.Intn(120)
	}
	var pp *PQ
	big := false
	if c.Cfg == nil && rng.Intn(25) == 0 {
		// "big flush" variant: one flush transaction with more page writes in
		// flight than the writer takes in one batch (1024)
		cfg := DrawPQCfg(e.Rng("cfg"), false)
		cfg.PageSize, cfg.MaxSize, cfg.BgWeight, cfg.Stick, cfg.Variant = 1024, 0, 0.05, 0.9, 9
		c.Cfg = &cfg
		n := (1040 + rng.Intn(500)) * (1024 - pqPageHeader)
		c.Tasks = map[string][]Op{"main": {
			{K: "write", A: 300, B: 300}, {K: "next"}, {K: "flush"},
			{K: "write", A: n, B: 65536}, {K: "next"}, {K: "flush"},
			{K: "rbegin"}, {K: "rnext"}, {K: "rread", A: 512}, {K: "rdone"}, {K: "ack", A: 0},
			{K: "write", A: 100, B: 100}, {K: "next"}, {K: "flush"},
		}}
	}
	if c.Cfg != nil && c.Cfg.Variant == 9 {
		big = true
		e.Probe("big_flush")
	}
	p := pqWorkload(e, rng.Intn(4) == 0, nops, func(p *PQ, g *PQGen) {
		pp = p
		p.Prop = "C06"
		g.WAck, g.WFlush, g.WReopen = 12, 10, 2
		g.MaxPagesPerEvent = 2
		p.OnProducer = func(begin bool, before, after int) {
			if logStart < 0 {
				return
			}
			if begin {
				cur = &pqWindow{begin: p.D.Marker("producer-begin"), end: -1, flushedBefore: p.cbFlushed, mayPublish: after, ackedBefore: p.acked}
				wins = append(wins, cur)
			} else if cur != nil {
				cur.flushedAfter = p.cbFlushed
				cur.end = p.D.Marker("producer-end")
				cur = nil
			}
		}
		p.OnACK = func(begin bool, n int) {
			if logStart < 0 {
				return
			}
			if begin {
				cur = &pqWindow{begin: p.D.Marker("ack-begin"), end: -1, ack: true, ackedBefore: p.acked, ackN: n, flushedBefore: p.cbFlushed, flushedAfter: p.cbFlushed}
				wins = append(wins, cur)
			} else if cur != nil {
				cur.ackOK = p.acked == cur.ackedBefore+n
				cur.end = p.D.Marker("ack-end")
				cur = nil
			}
		}
		p.AfterOpen = func() {
			if logStart < 0 {
				logStart = len(p.D.Log)
				initImg = p.D.Snapshot()
			}
		}
	})
	_ = pp
	if e.Failed() || p.Q == nil || logStart < 0 {
		return
	}
	// a Queue.Close flushes; treat it as a producer call
	if p.rdActive {
		p.Apply(Op{K: "rdone"})
	}
	p.OnProducer(true, p.completed(), p.completed())
	err := p.Q.Close()
	p.OnProducer(false, p.completed(), p.completed())
	if err != nil && !isOOM(err) {
		e.Fail("C06", "close-error", "Queue.Close failed: %+v", err)
		return
	}
	p.Q = nil
	p.E.CloseFile(p.F)
	p.F = nil
	sizes := append([]int(nil), p.Sizes...)
	runSig := sigOfOps(p.Ops, uint64(p.Cfg.PageSize), uint64(p.Cfg.WriteBuf))
	e.Res.Sig = runSig

	log := p.D.Log[logStart:]
	maxExh, nrand := 5, 8
	if c.Tier == "thorough" {
		maxExh, nrand = 7, 24
	}
	plan := CrashPlan{From: 0, MaxExh: maxExh, NRandom: nrand, PageSize: p.Cfg.PageSize, Tear: true, Rng: e.Rng("crash"), Only: c.Crash, Stop: func() bool { return e.Failed() || outOfTime() }, SparseK: big}
	evals := 0
	// reopen restarts callbacks' baseline: windows carry absolute totals because PQ.afterRestart re-bases cbFlushed/cbAcked
	EnumerateCrashes(log, initImg, plan, func(k int, ch *CrashChoice, n int, img []byte) {
		evals++
		absK := k + logStart
		// allowed a / b
		acked, flushed := 0, 0
		first := true
		var inprog *pqWindow
		for _, w := range wins {
			if first {
				acked, flushed = w.ackedBefore, w.flushedBefore
				first = false
			}
			if w.end >= 0 && w.end < absK {
				if w.ack {
					if w.ackOK {
						acked = w.ackedBefore + w.ackN
					}
				} else {
					flushed = w.flushedAfter
				}
				if w.ack {
					flushed = w.flushedAfter
				} else {
					acked = w.ackedBefore
				}
			} else if w.begin < absK {
				inprog = w
				if w.ack {
					acked = w.ackedBefore
				} else {
					flushed = w.flushedBefore
				}
			}
		}
		allowedA := []int{acked}
		allowedB := []int{flushed}
		if inprog != nil {
			if inprog.ack {
				allowedA = append(allowedA, acked+inprog.ackN)
				e.Probe("crash_in_ack")
			} else {
				if inprog.mayPublish > flushed {
					allowedB = append(allowedB, inprog.mayPublish)
				}
				e.Probe("crash_in_flush")
			}
		}
		desc := fmt.Sprintf("crash before I/O #%d, kept %v of %d pending", k, ch.Keep, n)
		if ch.TearPos >= 0 {
			desc += fmt.Sprintf(", header write torn after %d bytes", ch.TearLen)
			e.Probe("torn_header")
		}
		if n > 0 {
			e.Probe("image_nonempty_pending")
			if inprog != nil {
				e.Res.Nontrivial = true
			}
			if len(e.Res.Sigs) < 20000 {
				h := simsched.Mix(runSig, uint64(k), uint64(ch.TearPos+2), uint64(ch.TearLen))
				for _, j := range ch.Keep {
					h = simsched.Mix(h, uint64(j))
				}
				e.Res.Sigs = append(e.Res.Sigs, h)
			}
		}
		var contSeed uint64
		if !big && (evals%12 == 0 || k == len(log)) {
			contSeed = uint64(evals)
		}
		if c.Crash != nil {
			contSeed = c.Crash.ContSeed
		}
		ch.ContSeed = contSeed
		c06Eval(e, p.Cfg, img, sizes, allowedA, allowedB, desc, contSeed)
		if e.Failed() && c.Crash == nil {
			c.Crash = ch
		}
	})
	e.Res.Evals = max(evals, 1)
}

// c06Eval opens a crash image, drains the queue and compares with the model.
func c06Eval(e *Env, cfg Cfg, img []byte, sizes []int, allowedA, allowedB []int, desc string, cont ...uint64) {
	d2 := simdisk.NewFromImage("image", e.S, img)
	d2.YieldIO, d2.LogData = false, false
	var f *txfile.File
	var q *pq.Queue
	var err error
	if e.Guard("C06", "opening file and queue of crash image ("+desc+")", func() {
		d2.Lock(true, false)
		f, err = e.OpenFile(d2, txfile.Options{MaxSize: uint64(cfg.MaxSize), PageSize: uint32(cfg.PageSize)})
		if err != nil {
			return
		}
		e.Yield("opened")
		var dg pq.Delegate
		dg, err = newQueueDelegate(f, cfg)
		if err != nil {
			return
		}
		q, err = pq.New(dg, pq.Settings{WriteBuffer: uint(cfg.WriteBuf)})
	}) {
		return
	}
	if err != nil {
		e.Fail("C06", "open-failed", "%s: reopening file/queue failed: %+v", desc, err)
		return
	}
	defer func() {
		q.Close()
		e.CloseFile(f)
	}()
	var got [][]byte
	var pending int
	if e.Guard("C06", "draining the recovered queue ("+desc+")", func() {
		pending, err = q.Pending()
		if err != nil {
			return
		}
		r := q.Reader()
		if err = r.Begin(); err != nil {
			return
		}
		defer r.Done()
		for len(got) < len(sizes)+2 {
			var l int
			l, err = r.Next()
			if err != nil || l == 0 {
				return
			}
			if l < 0 || l > len(img) {
				err = fmt.Errorf("reader announces an event of %d bytes in a file of %d bytes", l, len(img))
				return
			}
			buf := make([]byte, l+8)
			tot := 0
			for {
				var m int
				m, err = r.Read(buf[tot:])
				if err != nil {
					return
				}
				if m == 0 {
					break
				}
				tot += m
			}
			if tot != l {
				err = fmt.Errorf("event announced with %d bytes delivered %d bytes", l, tot)
				return
			}
			got = append(got, buf[:tot])
		}
	}) {
		return
	}
	if err != nil {
		e.Fail("C06", "drain-error", "%s: reading the recovered queue failed: %+v", desc, err)
		return
	}
	n := len(got)
	var why []string
	for _, a := range allowedA {
		b := a + n
		okB := false
		for _, x := range allowedB {
			if x == b {
				okB = true
			}
		}
		// an ACK can only cover flushed events, so a <= b always
		if !okB {
			why = append(why, fmt.Sprintf("a=%d: would end at %d, allowed ends %v", a, b, allowedB))
			continue
		}
		bad := ""
		for i := 0; i < n; i++ {
			idx := a + i
			if idx >= len(sizes) {
				bad = fmt.Sprintf("event %d does not exist in the model", idx)
				break
			}
			if len(got[i]) != sizes[idx] || !bytes.Equal(got[i], evChunk(e.Seed, idx, 0, sizes[idx])) {
				bad = fmt.Sprintf("delivered event %d (%d bytes) is not model event %d (%d bytes)", i, len(got[i]), idx, sizes[idx])
				break
			}
		}
		if bad != "" {
			why = append(why, fmt.Sprintf("a=%d: %s", a, bad))
			continue
		}
		if pending != n {
			e.Fail("C06", "pending", "%s: recovered queue reports Pending=%d but delivers %d events", desc, pending, n)
			return
		}
		if a != allowedA[0] {
			e.Probe("recovered_with_inprogress_ack")
		}
		if b != allowedB[0] {
			e.Probe("recovered_with_inprogress_flush")
		}
		if n > 0 {
			e.Probe("redelivered_unacked")
		}
		if len(cont) > 0 && cont[0] != 0 {
			c06Continue(e, cfg, img, sizes, a, b, cont[0], desc)
		}
		return
	}
	e.Fail("C06", "recovered-range", "%s: recovered queue delivers %d events, which is no allowed range [a,b) with a in %v and b in %v: %v", desc, n, allowedA, allowedB, why)
}

// c06Continue: the recovered queue (events [a,b) of the model) must keep
// working: a short producer/consumer/ACK/reopen history runs on the image with
// the full C05/C17 oracles, then everything is flushed and drained.
func c06Continue(e *Env, cfg Cfg, img []byte, sizes []int, a, b int, seed uint64, desc string) {
	if e.Failed() {
		return
	}
	e.Probe("continued_after_recovery")
	d3 := simdisk.NewFromImage("image", e.S, img)
	d3.YieldIO, d3.LogData = false, false
	p := NewPQ(e, d3, cfg)
	p.Prop = "C06"
	p.NoRecord = true
	p.Sizes = append([]int(nil), sizes[:b]...)
	p.acked = a
	p.idBased = true // the queue exists already (its id base was set when it was created)
	var err error
	if e.Guard("C06", "opening the recovered queue again ("+desc+")", func() { err = p.Open() }) {
		return
	}
	if err != nil {
		e.Fail("C06", "open-failed", "%s: opening the recovered queue for further use failed: %+v", desc, err)
		return
	}
	p.afterRestart(b)
	p.CheckCounters = true
	g := NewPQGen(p, e.Rng(fmt.Sprintf("c06cont-%d", seed)))
	g.WAck, g.WFlush, g.WReopen, g.MaxPagesPerEvent = 14, 10, 3, 2
	if e.Guard("C06", "using the recovered queue ("+desc+")", func() {
		for i := 0; i < 24 && !e.Failed(); i++ {
			p.Apply(g.Next())
		}
		pqFinish(e, p)
	}) {
		return
	}
	if e.Failed() && e.viol != nil {
		e.viol.Msg = desc + "; recovered events [" + fmt.Sprint(a) + "," + fmt.Sprint(b) + "), then further use: " + e.viol.Msg
	}
	p.Close()
}
