package harness

import (
	"bytes"
	"fmt"
	"sort"

	txfile "github.com/elastic/go-txfile"

	"verifsim/simsched"
)

// snapObs is what one reader observed in one read transaction.
type snapObs struct {
	reader       string
	invSeq, retSeq uint64
	root         PageID
	pass         [2]map[PageID][]byte // nil entry = read error
	errs         [2]map[PageID]string
	commitsInvoked int // number of commit attempts invoked before Begin returned
	spanned      bool
}

// concCtx is shared by the tasks of a concurrent run.
type concCtx struct {
	e        *Env
	r        *Runner
	snaps    []*snapObs
	openTx   int // transactions between Begin-return and End-return
	writers  int // active write transactions (Begin returned, end call not yet invoked)
	begun    int // Begin calls that have returned
	planned  int // Begin calls that will be made in total
	closed   bool
	taskOps  map[string][]Op
}

func (c *concCtx) txOpened(write bool) {
	c.openTx++
	c.begun++
	if c.openTx > 1 && (write || c.writers > 0) {
		c.e.Probe("readers_overlap_writer")
	}
	if write {
		c.writers++
		if c.writers > 1 {
			c.e.Fail("C09", "two-writers", "%d write transactions are active at the same time", c.writers)
		}
	}
}

// txEnded is called right after the end call returned (no yield in between).
func (c *concCtx) txEnded() {
	c.openTx--
	if c.openTx == 0 && !c.closed && c.r.F != nil {
		c.r.CheckLocksIdle("all transactions finished")
	}
}

func copyBytes(b []byte) []byte { return append([]byte(nil), b...) }

// readerTask runs the reader program: a list of "snap" operations
// (A = yields between the two passes, B = yields between page reads modulo).
func (c *concCtx) readerTask(name string, prog []Op) {
	e := c.e
	for _, op := range prog {
		if e.Failed() || c.closed {
			return
		}
		for i := 0; i < op.C; i++ {
			e.Yield("reader:idle")
		}
		so := &snapObs{reader: name}
		so.invSeq = e.S.NextSeq()
		var tx *txfile.Tx
		var err error
		if e.Guard("C02", "BeginReadonly", func() { tx, err = c.r.F.BeginReadonly() }) {
			return
		}
		so.retSeq = e.S.NextSeq()
		if err != nil {
			e.Fail("C09", "begin-failed", "BeginReadonly failed: %v", err)
			return
		}
		c.txOpened(false)
		so.commitsInvoked = len(c.r.Commits)
		so.root = tx.Root()
		startCommits := c.r.E.Res.Probes["commit_ok"]
		// candidate page ids: every page of every state that might be visible
		ids := c.candidateIDs(so)
		for pass := 0; pass < 2; pass++ {
			so.pass[pass] = map[PageID][]byte{}
			so.errs[pass] = map[PageID]string{}
			for i, id := range ids {
				if e.Failed() {
					break
				}
				if op.B > 0 && i%op.B == 0 {
					e.Yield("reader:read")
				}
				e.Guard("C02", fmt.Sprintf("reading page %d in a read transaction", id), func() {
					p, err := tx.Page(id)
					if err != nil {
						so.errs[pass][id] = err.Error()
						return
					}
					b, err := p.Bytes()
					if err != nil {
						so.errs[pass][id] = err.Error()
						return
					}
					so.pass[pass][id] = copyBytes(b)
				})
			}
			if pass == 0 {
				for i := 0; i < op.A; i++ {
					e.Yield("reader:hold")
				}
			}
		}
		if r2 := tx.Root(); r2 != so.root {
			e.Fail("C02", "snapshot-changed", "reader %s: Root() changed from %d to %d inside one read transaction", name, so.root, r2)
		}
		if c.r.E.Res.Probes["commit_ok"] > startCommits || len(c.r.Commits) > so.commitsInvoked {
			so.spanned = true
			e.Probe("reader_spans_writer_step")
		}
		if err := tx.Close(); err != nil {
			e.Fail("C02", "close-error", "closing read transaction failed: %v", err)
		}
		c.txEnded()
		c.snaps = append(c.snaps, so)
	}
}

func (c *concCtx) candidateIDs(so *snapObs) []PageID {
	set := map[PageID]bool{}
	add := func(s *State) {
		for id, v := range s.Pages {
			if v != nil {
				set[id] = true
			}
		}
	}
	// all successful states so far (a window lower bound is not known cheaply;
	// the last few states are enough: lo >= number of commits returned before invocation)
	h := c.r.Hist
	from := len(h) - 3
	if from < 0 {
		from = 0
	}
	for _, s := range h[from:] {
		add(s)
	}
	if n := len(c.r.Commits); n > 0 && c.r.Commits[n-1].End < 0 {
		add(c.r.Commits[n-1].State)
	}
	ids := make([]PageID, 0, len(set))
	for id := range set {
		ids = append(ids, id)
	}
	sort.Slice(ids, func(i, j int) bool { return ids[i] < ids[j] })
	return ids
}

// judgeSnapshots evaluates the snapshot isolation oracle over all recorded
// reader observations (after the run, when the fate of every commit is known).
func (c *concCtx) judgeSnapshots() {
	e := c.e
	r := c.r
	// successful commits in order; state j (j>=1) is produced by ok[j-1]
	var ok []*CommitRec
	for i := range r.Commits {
		if r.Commits[i].OK {
			ok = append(ok, &r.Commits[i])
		}
	}
	for _, so := range c.snaps {
		lo, hi := 0, 0
		for _, cr := range ok {
			if cr.RetSeq < so.invSeq {
				lo++
			}
			if cr.InvSeq < so.retSeq {
				hi++
			}
		}
		base := r.Hist[0].N
		match := -1
		var why []string
		for j := lo; j <= hi && j < len(r.Hist); j++ {
			st := r.Hist[j]
			if msg := matchSnapshot(so, st); msg == "" {
				match = j
				break
			} else {
				why = append(why, fmt.Sprintf("state #%d: %s", st.N, msg))
			}
		}
		_ = base
		if match < 0 {
			e.Fail("C02", "snapshot", "reader %s (begin invoked at seq %d, returned at %d) observed no committed state of its window [#%d..#%d]: %v", so.reader, so.invSeq, so.retSeq, r.Hist[lo].N, r.Hist[min(hi, len(r.Hist)-1)].N, why)
			return
		}
		if hi > lo {
			e.Probe("reader_begin_concurrent_with_commit")
		}
	}
}

func matchSnapshot(so *snapObs, st *State) string {
	if so.root != st.Root {
		return fmt.Sprintf("root %d != %d", so.root, st.Root)
	}
	for id, want := range st.Pages {
		if want == nil {
			continue
		}
		for pass := 0; pass < 2; pass++ {
			got, okk := so.pass[pass][id]
			if !okk {
				if msg, bad := so.errs[pass][id]; bad {
					return fmt.Sprintf("pass %d: page %d unreadable: %s", pass+1, id, msg)
				}
				return fmt.Sprintf("pass %d: page %d not read", pass+1, id)
			}
			if !bytes.Equal(got, want) {
				return fmt.Sprintf("pass %d: page %d holds %s, expected %s", pass+1, id, DescribePage(got), DescribePage(want))
			}
		}
	}
	return ""
}

// writerTask runs one writer program on the shared runner.
func (c *concCtx) writerTask(name string, prog []Op, g *Gen, ntx int) {
	e, r := c.e, c.r
	r.NoRecord = true
	own := false // this task owns the runner's write transaction
	step := func(op Op) {
		// record first (an operation that panics is part of the history); Apply
		// of "begin" blocks inside Begin until the reserved lock is available
		c.taskOps[name] = append(c.taskOps[name], op)
		if !r.Apply(op) {
			l := c.taskOps[name]
			c.taskOps[name] = l[:len(l)-1]
			return
		}
		switch op.K {
		case "begin":
			own = true
			if !e.Failed() {
				c.txOpened(true)
			}
		case "commit", "rollback", "closetx":
			own = false
		}
	}
	if prog != nil {
		for _, op := range prog {
			if e.Failed() || c.closed {
				return
			}
			if op.K != "begin" && !own {
				continue
			}
			step(op)
			e.Yield("op")
		}
		return
	}
	for t := 0; t < ntx && !e.Failed() && !c.closed; t++ {
		a := 0
		if r.Cfg.MaxSize > 0 && g.Rng.Intn(10) == 0 {
			a = 1
		}
		step(Op{K: "begin", A: a})
		g.StartTx()
		e.Yield("op")
		for own && r.InTx() && !e.Failed() {
			op := g.Next()
			if op.K == "begin" || op.K == "reopen" {
				break
			}
			step(op)
			e.Yield("op")
		}
		for i := g.Rng.Intn(3); i > 0; i-- {
			e.Yield("wtask:idle")
		}
	}
}

func drawSched(cfg *Cfg, rng *simsched.Rand) {
	cfg.Stick = []float64{0, 0.2, 0.5, 0.8, 0.95}[rng.Intn(5)]
	cfg.BgWeight = []float64{0.1, 0.5, 1, 1, 3}[rng.Intn(5)]
	// task starvation (wave 11, C02k): derived from a copy of the generator so that
	// the stream every other choice of the run is drawn from stays as it was
	peek := *rng
	cfg.Starve = []float64{0, 0, 0.01, 0.04}[peek.Intn(4)]
}

func init() {
	probeNames["C02"] = []string{"reader_spans_writer_step", "reader_begin_concurrent_with_commit", "commit_ok", "tx_aborted", "commit_waited_for_reader", "remap_at_commit", "reader_blocked_on_pending", "checkpoint_with_wal_entries", "rollback_after_flush", "sched_starvation_episodes"}
	register(&PropDef{
		ID: "C02", Level: "exploration", QuickSec: 55, ThoroSec: 1200,
		Rule: "each run = one writer task executing a seeded txops history (incl. Flush before commit, CheckpointWAL, frees, rollbacks, unbounded files growing past the 64KiB mapping) and 1-3 reader tasks each taking several read snapshots (two full passes over all candidate pages with yields between single page reads); the PRNG scheduler interleaves at every txfile hook (before/after pending, before/after exclusive, after switch, tx close, begin) and every simulated disk call. Oracle: each snapshot equals exactly one committed model state inside the window given by global event sequence numbers of Begin and Commit, in both passes. Non-trivial = run in which a reader was alive across at least one writer commit step; distinct = hash of the (task, yield point) sequence.",
		Real: defaultReal, Stub: defaultStub, Assume: defaultAssume,
		Body: c02Body,
	})
	probeNames["C09"] = []string{"commit_ok", "tx_aborted", "commit_failed", "readers_overlap_writer", "commit_waited_for_reader", "reader_blocked_on_pending", "closer_ran", "open_time_maxsize_update", "reader_spans_writer_step", "sched_starvation_episodes"}
	register(&PropDef{
		ID: "C09", Level: "exploration", QuickSec: 55, ThoroSec: 1200,
		Rule: "each run = 0-4 reader tasks, 1-3 writer tasks (each ending transactions by commit/rollback/close/failing commit from out-of-space) and optionally a closer task invoking File.Close once every Begin has returned, optionally preceded by an open with FlagUpdMaxSize (grow/shrink/unbounded, prealloc) that runs internal transactions; the PRNG scheduler interleaves at every hook and disk call. Oracles: at most one write transaction active; scheduler never reaches 'unfinished tasks, nothing runnable' (deadlock) nor the step budget; whenever no transaction is open the lock state is idle (shared=0, pending clear, reserved free), also right after Open. Non-trivial = run with at least one context switch between two transaction tasks while both had a transaction open or pending; distinct = hash of the (task, yield point) sequence.",
		Real: defaultReal, Stub: defaultStub, Assume: append(append([]string{}, defaultAssume...), "the 'no data race' clause is decided by the free-running -race side mode, not by the cooperative scheduler"),
		Body: c09Body,
	})
}

func c02Body(e *Env) {
	c := e.Case
	if c.Cfg == nil {
		cfg := DrawCfg(e.Rng("cfg"), 0)
		rng := e.Rng("c02")
		drawSched(&cfg, rng)
		e.S.Tune(cfg.Stick, cfg.BgWeight, cfg.Starve, 40)
		cfg.NTx = 2 + rng.Intn(7)
		cfg.Readers = 1 + rng.Intn(3)
		cfg.Mix = []string{"balanced", "overwrite", "checkpoint", "rollback", "big", "alloc", "fragment"}[rng.Intn(7)]
		if rng.Intn(3) == 0 { // unbounded, small pages, big allocations: grows past the initial mapping
			cfg.MaxSize = 0
			cfg.Mix = "big"
		}
		c.Cfg = &cfg
		if c.Tasks == nil && rng.Intn(6) == 0 {
			// writer preset: commits that only free pages alternate with transactions
			// that allocate (the pages just freed), write and flush them, while the
			// readers hold their snapshots for a long time
			cfg.Variant = 4
			prog := []Op{{K: "begin"}, {K: "allocn", A: 12 + rng.Intn(12)}}
			for i := 0; i < 10; i++ {
				prog = append(prog, Op{K: "setfull", A: rng.Intn(1 << 16)})
			}
			prog = append(prog, Op{K: "commit"})
			for k, n := 0, 2+rng.Intn(4); k < n; k++ {
				prog = append(prog, Op{K: "begin"})
				for i, m := 0, 1+rng.Intn(4); i < m; i++ {
					prog = append(prog, Op{K: "free", A: rng.Intn(1 << 16)})
				}
				prog = append(prog, Op{K: "commit"}, Op{K: "begin"}, Op{K: "allocn", A: 1 + rng.Intn(4)})
				for i := 0; i < 8; i++ {
					prog = append(prog, Op{K: "setfull", A: rng.Intn(1 << 16)})
				}
				prog = append(prog, Op{K: []string{"txflush", "txflush", "commit"}[rng.Intn(3)]})
				prog = append(prog, Op{K: []string{"commit", "rollback", "closetx"}[rng.Intn(3)]})
			}
			c.Tasks = map[string][]Op{"w0": prog}
			for i := 0; i < cfg.Readers; i++ {
				var rp []Op
				for k, n := 0, 2+rng.Intn(4); k < n; k++ {
					rp = append(rp, Op{K: "snap", A: 5 + rng.Intn(40), B: 1 + rng.Intn(3), C: rng.Intn(6)})
				}
				c.Tasks[fmt.Sprintf("r%d", i)] = rp
			}
		}
	}
	cfg := *c.Cfg
	d := e.NewDisk("file")
	r := NewRunner(e, d, cfg)
	r.SkipLocksIdle = true
	cc := &concCtx{e: e, r: r, taskOps: map[string][]Op{}}
	r.BeforeEnd = func() { cc.writers-- }
	r.OnTxEnd = cc.txEnded
	r.ReadOpened = func() { cc.txOpened(false); cc.begun-- }
	r.ReadClosed = cc.txEnded
	if err := r.Open(); err != nil {
		e.Fail("C02", "open-failed", "creating the file failed: %v", err)
		return
	}
	explicit := c.Tasks
	done := 0
	total := 1 + cfg.Readers
	finish := func() { done++ }
	g := NewGen(r, e.Rng("ops"), cfg.Mix)
	g.NoReopen = true
	e.S.Go("w0", func() {
		defer finish()
		var prog []Op
		if explicit != nil {
			prog = explicit["w0"]
			if prog == nil {
				prog = []Op{}
			}
		}
		cc.writerTask("w0", prog, g, cfg.NTx)
		if r.InTx() && !e.Failed() {
			r.Apply(Op{K: "rollback"})
		}
	})
	for i := 0; i < cfg.Readers; i++ {
		name := fmt.Sprintf("r%d", i)
		var prog []Op
		if explicit != nil {
			prog = explicit[name]
		} else {
			rr := e.Rng("reader-" + name)
			n := 1 + rr.Intn(5)
			for k := 0; k < n; k++ {
				prog = append(prog, Op{K: "snap", A: rr.Intn(12), B: 1 + rr.Intn(4), C: rr.Intn(10)})
			}
		}
		cc.taskOps[name] = prog
		e.S.Go(name, func() {
			defer finish()
			cc.readerTask(name, prog)
		})
	}
	// main waits for all tasks
	for done < total {
		e.S.YieldUntil("main:wait", func() bool { return done >= total })
	}
	c.Tasks = cc.taskOps
	if !e.Failed() {
		cc.judgeSnapshots()
	}
	if !e.Failed() && r.F != nil {
		r.CheckLocksIdle("end of run")
		r.VerifyAll("end of run")
	}
	c02Probes(e, r)
	r.Close()
	e.Res.Nontrivial = e.Res.Probes["reader_spans_writer_step"] > 0
}

// lockProbes derives lock related reach probes from the schedule trace.
func lockProbes(e *Env) {
	for _, st := range e.S.Trace {
		if st.Point != "cond:wake" {
			continue
		}
		switch {
		case len(st.Task) > 0 && st.Task[0] == 'w':
			e.Probe("commit_waited_for_reader") // a writer task woke up from waiting on the exclusive lock
		case len(st.Task) > 0 && st.Task[0] == 'r':
			e.Probe("reader_blocked_on_pending") // a reader task woke up from waiting for the pending lock
		}
	}
}

func c02Probes(e *Env, r *Runner) {
	lockProbes(e)
	n := 0
	for _, op := range r.D.Log {
		if op.Kind.String() == "mmap" {
			n++
		}
	}
	if n > 1 {
		e.ProbeN("remap_at_commit", n-1)
	}
	pc := e.S.PointCnt
	_ = pc
}

func c09Body(e *Env) {
	c := e.Case
	if c.Cfg == nil {
		cfg := DrawCfg(e.Rng("cfg"), 0)
		rng := e.Rng("c09")
		drawSched(&cfg, rng)
		e.S.Tune(cfg.Stick, cfg.BgWeight, cfg.Starve, 40)
		cfg.NTx = 1 + rng.Intn(4)
		cfg.Readers = rng.Intn(5)
		cfg.Writers = 1 + rng.Intn(3)
		cfg.Closer = rng.Intn(3) == 0
		cfg.Mix = []string{"balanced", "rollback", "alloc", "overwrite"}[rng.Intn(4)]
		if rng.Intn(3) == 0 {
			// small bounded file: commits fail from out of space
			cfg.MaxSize = 64 << 10
			cfg.PageSize = 4096
			cfg.InitMeta = 0
			cfg.Mix = "alloc"
		}
		if rng.Intn(4) == 0 {
			cfg.Variant = 1 + rng.Intn(4) // open-time max size update
		}
		c.Cfg = &cfg
	}
	cfg := *c.Cfg
	d := e.NewDisk("file")
	r := NewRunner(e, d, cfg)
	r.SkipLocksIdle = true
	r.MultiWriter = true
	r.NoPostCheck = true
	cc := &concCtx{e: e, r: r, taskOps: map[string][]Op{}}
	if err := r.Open(); err != nil {
		e.Fail("C09", "open-failed", "creating the file failed: %v", err)
		return
	}
	r.CheckLocksIdle("after Open (new file)")
	if cfg.Variant > 0 && !e.Failed() {
		// one committed transaction, then reopen with a changed max size
		for _, op := range []Op{{K: "begin"}, {K: "allocn", A: 3}, {K: "setfull", A: 0}, {K: "setfull", A: 1}, {K: "commit"}} {
			r.Apply(op)
		}
		if e.Failed() {
			return
		}
		r.Ops = nil
		if err := r.E.CloseFile(r.F); err != nil {
			e.Fail("C09", "close-error", "File.Close failed: %v", err)
			return
		}
		o := r.Options()
		o.Flags |= txfile.FlagUpdMaxSize
		switch cfg.Variant {
		case 1: // grow
			o.MaxSize = uint64(max(cfg.MaxSize, 64<<10) * 2)
		case 2: // shrink
			if cfg.MaxSize == 0 {
				o.MaxSize = 128 << 10
			} else {
				o.MaxSize = uint64(max(64<<10, cfg.MaxSize/2))
			}
		case 3: // unbounded
			o.MaxSize = 0
			o.Flags |= txfile.FlagUnboundMaxSize
		case 4: // grow + prealloc
			o.MaxSize = uint64(max(cfg.MaxSize, 64<<10) + 64<<10)
			o.Prealloc = true
		}
		r.Cfg.MaxSize = int(o.MaxSize)
		r.F = nil
		if err := r.OpenWith(o); err != nil {
			e.Fail("C14", "reopen-error", "reopen with FlagUpdMaxSize (max size %d -> %d) failed: %v", cfg.MaxSize, o.MaxSize, err)
			return
		}
		e.Probe("open_time_maxsize_update")
		r.Cur().TxID = txfile.VerifHeaderSnapshot(r.F).TxID
		r.CheckLocksIdle(fmt.Sprintf("after Open with FlagUpdMaxSize (max size %d -> %d)", cfg.MaxSize, o.MaxSize))
		if e.Failed() {
			return
		}
	}
	r.BeforeEnd = func() { cc.writers-- }
	r.OnTxEnd = cc.txEnded
	r.ReadOpened = func() { cc.txOpened(false); cc.begun-- }
	r.ReadClosed = cc.txEnded
	explicit := c.Tasks
	done := 0
	total := cfg.Writers + cfg.Readers
	finish := func() { done++ }
	plannedKnown := explicit != nil
	for i := 0; i < cfg.Writers; i++ {
		name := fmt.Sprintf("w%d", i)
		var prog []Op
		if explicit != nil {
			prog = explicit[name]
			if prog == nil {
				prog = []Op{}
			}
			for _, op := range prog {
				if op.K == "begin" {
					cc.planned++
				}
			}
		} else {
			cc.planned += cfg.NTx
		}
		g := NewGen(r, e.Rng("ops-"+name), cfg.Mix)
		g.NoReopen = true
		e.S.Go(name, func() {
			defer finish()
			cc.writerTask(name, prog, g, cfg.NTx)
			if r.InTx() && !e.Failed() && !cc.closed {
				// only the task that owns the transaction may end it; by construction
				// a writer task leaves its loop with its own transaction closed
			}
		})
	}
	for i := 0; i < cfg.Readers; i++ {
		name := fmt.Sprintf("r%d", i)
		var prog []Op
		if explicit != nil {
			prog = explicit[name]
		} else {
			rr := e.Rng("reader-" + name)
			n := 1 + rr.Intn(3)
			for k := 0; k < n; k++ {
				prog = append(prog, Op{K: "snap", A: rr.Intn(8), B: 1 + rr.Intn(6), C: rr.Intn(8)})
			}
		}
		cc.planned += len(prog)
		cc.taskOps[name] = prog
		e.S.Go(name, func() {
			defer finish()
			cc.readerTask(name, prog)
		})
	}
	_ = plannedKnown
	if cfg.Closer {
		total++
		// C18 inside the simulation: the path lock may only be given up once no
		// transaction is open any more (otherwise another process could open and
		// change the file under a reader that Close is still waiting for)
		r.D.OnUnlock = func() {
			if cc.openTx > 0 {
				e.Fail("C18", "path-lock-released-early", "File.Close released the path lock while %d transactions were still open (Close had not returned yet)", cc.openTx)
			}
			e.Probe("path_unlock_observed")
		}
		e.S.Go("closer", func() {
			defer finish()
			// Close is invoked once every Begin call has returned; transactions may
			// still be open (Close has to wait for them).
			e.S.YieldUntil("closer:wait", func() bool { return cc.begun >= cc.planned || e.Failed() || done >= total-1 })
			if e.Failed() {
				return
			}
			cc.closed = true
			f := r.F
			if err := e.CloseFile(f); err != nil {
				e.Fail("C09", "close-error", "File.Close failed: %v", err)
			}
			r.F = nil
			e.Probe("closer_ran")
			if cc.openTx != 0 {
				e.Fail("C09", "close-early", "File.Close returned while %d transactions were still open", cc.openTx)
			}
		})
	}
	for done < total {
		e.S.YieldUntil("main:wait", func() bool { return done >= total })
	}
	c.Tasks = cc.taskOps
	if !e.Failed() {
		cc.judgeSnapshots()
	}
	if !e.Failed() && r.F != nil {
		r.CheckLocksIdle("end of run")
		r.VerifyAll("end of run")
		r.CheckPartition()
	}
	if !e.Failed() && r.F != nil {
		r.Close()
	}
	lockProbes(e)
	e.NontrivialIf = func(res *Result) bool { return res.Switches > 4 && (cfg.Readers+cfg.Writers) > 1 }
}
