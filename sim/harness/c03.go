package harness

import "verifsim/simdisk"

type FaultT = simdisk.Fault

// txWorkload runs a single-task txops history (generated or explicit).
// setup is called after the runner has been created and before opening.
func txWorkload(e *Env, bounded int, setup func(r *Runner, g *Gen)) *Runner {
	c := e.Case
	if c.Cfg == nil {
		cfg := DrawCfg(e.Rng("cfg"), bounded)
		rng := e.Rng("ntx")
		cfg.NTx = 3 + rng.Intn(18)
		c.Cfg = &cfg
	}
	d := e.NewDisk("file")
	r := NewRunner(e, d, *c.Cfg)
	g := NewGen(r, e.Rng("ops"), c.Cfg.Mix)
	if setup != nil {
		setup(r, g)
	}
	defer func() { c.Tasks = map[string][]Op{"main": r.Ops} }()
	if err := r.Open(); err != nil {
		e.Fail("C03", "open-failed", "creating the file failed: %v", err)
		return r
	}
	r.CheckLocksIdle("after open")
	if r.AfterCreate != nil {
		r.AfterCreate()
	}
	if c.Tasks != nil {
		for _, op := range c.Tasks["main"] {
			if e.Failed() {
				break
			}
			r.Apply(op)
			e.Yield("op")
		}
	} else {
		ended := 0
		for ended < c.Cfg.NTx && !e.Failed() {
			op := g.Next()
			if r.Apply(op) {
				switch op.K {
				case "commit", "rollback", "closetx":
					ended++
				}
			}
			e.Yield("op")
		}
	}
	if r.InTx() && !e.Failed() {
		r.Apply(Op{K: "rollback"})
	}
	return r
}

func sigOf(r *Runner, extra ...uint64) uint64 {
	h := uint64(1469598103934665603)
	for _, op := range r.Ops {
		for _, b := range []byte(op.K) {
			h = (h ^ uint64(b)) * 1099511628211
		}
		h = (h ^ uint64(op.A)) * 1099511628211
		h = (h ^ uint64(op.B)) * 1099511628211
	}
	for _, x := range extra {
		h = (h ^ x) * 1099511628211
	}
	return h
}

func init() {
	probeNames["C03"] = []string{"commit_ok", "tx_aborted", "reopen", "out_of_memory", "batch_gt12", "batch_dup_page", "rollback_after_flush", "wal_page_in_use", "checkpoint_with_wal_entries", "maintenance_tx", "huge_checkpoint"}
	register(&PropDef{
		ID: "C03", Level: "exploration", QuickSec: 50, ThoroSec: 900,
		Rule: "each run = one seeded txops history (3-20 transactions: alloc/AllocN/full+partial SetBytes/Load+MarkDirty/Page.Flush/Tx.Flush/Free/SetRoot/CheckpointWAL/commit/rollback/close/reopen) on a drawn configuration (page size, max size, init meta area, WAL limit, grow pct, sync mode) under a drawn scheduler policy (stickiness, writer-goroutine weight => write batching); model check inside the write tx, after every transaction and after reopen; 1 run in 1000 is a huge-checkpoint run (about 13 s each) (2060-2360 pages of 4 KiB overwritten in one transaction, then one CheckpointWAL copying all of them while the writer goroutine lags). Non-trivial = at least one successful commit that overwrote or freed a committed page; distinct = hash of executed op list + configuration + schedule.",
		Real: defaultReal, Stub: defaultStub, Assume: defaultAssume,
		Body: func(e *Env) {
			c := e.Case
			vr := e.Rng("c03variant")
			if c.Cfg == nil && vr.Intn(1000) == 0 {
				// "huge checkpoint" variant: one checkpoint copies more than 2048
				// overwrite pages (8 MiB at 4 KiB pages) while the writer goroutine lags
				cfg := DrawCfg(e.Rng("cfg"), -1)
				cfg.PageSize, cfg.MaxSize, cfg.InitMeta = 4096, 0, []int{0, 16}[vr.Intn(2)]
				cfg.BgWeight, cfg.Stick, cfg.WALLimit = 0.05, 0.9, 100000
				cfg.NTx, cfg.Variant = 4, 9
				c.Cfg = &cfg
				n := 2060 + vr.Intn(300)
				ops := []Op{{K: "begin"}}
				for left := n; left > 0; left -= 250 {
					ops = append(ops, Op{K: "allocn", A: min(left, 250)})
				}
				for i := 0; i < n; i++ {
					ops = append(ops, Op{K: "setfull", A: i})
				}
				ops = append(ops, Op{K: "commit"}, Op{K: "begin"})
				for i := 0; i < n; i++ {
					ops = append(ops, Op{K: "setfull", A: i})
				}
				ops = append(ops, Op{K: "commit"}, Op{K: "begin"})
				if vr.Intn(2) == 0 {
					ops = append(ops, Op{K: "touch", A: vr.Intn(n)}, Op{K: "checkpoint"}, Op{K: "readv", A: vr.Intn(n)}, Op{K: "commit"})
				} else {
					ops = append(ops, Op{K: "checkpoint"}, Op{K: "setfull", A: vr.Intn(n)}, Op{K: "commit"})
				}
				c.Tasks = map[string][]Op{"main": ops}
			}
			if c.Cfg != nil && c.Cfg.Variant == 9 {
				e.Probe("huge_checkpoint")
			}
			r := txWorkload(e, 0, nil)
			if !e.Failed() && r.F != nil {
				r.Reopen()
			}
			c03Probes(e, r)
			r.Close()
			e.Res.Sig = sigOf(r, uint64(e.Case.Cfg.PageSize), uint64(e.Case.Cfg.MaxSize), uint64(e.Case.Cfg.WALLimit), e.Res.SchedHash)
			e.Res.Nontrivial = e.Res.Probes["commit_ok"] > 0 && len(r.Hist) > 2
		},
	})
}

// c03Probes derives reach probes from the disk's op log.
func c03Probes(e *Env, r *Runner) {
	// batches: consecutive writes by the writer goroutine without a yield to
	// another task in between can not be observed directly; approximate a batch
	// as a maximal run of write ops between two non-write ops.
	run := 0
	seen := map[int64]bool{}
	flush := func() {
		if run > 12 {
			e.Probe("batch_gt12")
		}
		run = 0
		seen = map[int64]bool{}
	}
	for _, op := range r.D.Log {
		if op.Kind == simdisk.OpWrite {
			run++
			if seen[op.Off] {
				e.Probe("batch_dup_page")
			}
			seen[op.Off] = true
		} else if op.Kind == simdisk.OpSync || op.Kind == simdisk.OpMarker {
			flush()
		}
	}
	flush()
	if r.F != nil {
		s := TakePartition(r.F)
		if len(s.Snap.WALMapping) > 0 {
			e.Probe("wal_page_in_use")
		}
	}
}
