package harness

import (
	"encoding/binary"
	"hash/fnv"

	"verifsim/simdisk"
	"verifsim/simsched"
)

// header field boundaries of the 84 byte file header
var headerFieldOffsets = []int{4, 8, 12, 20, 24, 32, 40, 48, 56, 64, 72, 80}

const headerSize = 84

// CrashEval evaluates one crash image. pendingN is the size of the pending set.
type CrashEval func(k int, ch *CrashChoice, pendingN int, img []byte)

// CrashPlan configures the enumeration.
type CrashPlan struct {
	From     int // first crash index (crash happens just before log entry k)
	MaxExh   int // enumerate all subsets up to this many pending ops
	NRandom  int // random subsets above MaxExh
	PageSize int
	Tear     bool
	Rng      *simsched.Rand
	Only     *CrashChoice // replay: evaluate only this image
	Stop     func() bool
	SparseK  bool // long logs: skip most crash points that directly follow a plain data page write
	// Interesting reports whether index k should be evaluated at all (default: log[k-1] is
	// a mutating op or a marker, or k == len(log)).
}

func isHeaderWrite(op *simdisk.Op, pageSize int) bool {
	return op.Kind == simdisk.OpWrite && op.Len == headerSize && (op.Off == 0 || op.Off == int64(pageSize))
}

// EnumerateCrashes walks the op log and evaluates crash images.
func EnumerateCrashes(log []simdisk.Op, init []byte, p CrashPlan, eval CrashEval) (images int) {
	b := simdisk.NewImageBuilder(log, init)
	if p.Only != nil {
		b.Advance(p.Only.K)
		pend := b.PendingOps()
		keep := make([]bool, len(pend))
		for _, j := range p.Only.Keep {
			if j < len(keep) {
				keep[j] = true
			}
		}
		img := b.Image(keep, p.Only.TearPos, p.Only.TearLen)
		eval(p.Only.K, p.Only, len(pend), img)
		return 1
	}
	for k := p.From; k <= len(log); k++ {
		if p.Stop != nil && p.Stop() {
			return
		}
		if k > 0 && k < len(log) {
			prev := log[k-1].Kind
			if prev != simdisk.OpWrite && prev != simdisk.OpSync && prev != simdisk.OpTruncate && prev != simdisk.OpMarker {
				continue
			}
		}
		if p.SparseK && k > 0 && k < len(log) && log[k-1].Kind == simdisk.OpWrite && !isHeaderWrite(&log[k-1], p.PageSize) && k%53 != 0 {
			continue
		}
		b.Advance(k)
		pend := b.PendingOps()
		n := len(pend)
		emit := func(keep []bool, tearPos, tearLen int) {
			if p.Stop != nil && p.Stop() {
				return
			}
			ch := &CrashChoice{K: k, TearPos: tearPos, TearLen: tearLen}
			for j, kp := range keep {
				if kp {
					ch.Keep = append(ch.Keep, j)
				}
			}
			img := b.Image(keep, tearPos, tearLen)
			images++
			eval(k, ch, n, img)
		}
		hdr := -1
		if p.Tear {
			for j, i := range pend {
				if isHeaderWrite(&log[i], p.PageSize) {
					hdr = j
				}
			}
		}
		tears := func(keep []bool) {
			if hdr < 0 || !keep[hdr] {
				return
			}
			for _, off := range headerFieldOffsets {
				emit(keep, hdr, off)
			}
			for i := 0; i < 3; i++ {
				emit(keep, hdr, 1+p.Rng.Intn(headerSize-1))
			}
		}
		if n == 0 {
			emit(nil, -1, 0)
			continue
		}
		if n <= p.MaxExh {
			for m := 0; m < 1<<uint(n); m++ {
				keep := make([]bool, n)
				for j := 0; j < n; j++ {
					keep[j] = m&(1<<uint(j)) != 0
				}
				emit(keep, -1, 0)
				if m == 1<<uint(n)-1 || (hdr >= 0 && m == 1<<uint(hdr)) {
					tears(keep)
				}
			}
			continue
		}
		mk := func(f func(j int) bool) []bool {
			keep := make([]bool, n)
			for j := range keep {
				keep[j] = f(j)
			}
			return keep
		}
		emit(mk(func(int) bool { return false }), -1, 0)
		all := mk(func(int) bool { return true })
		emit(all, -1, 0)
		tears(all)
		if n > 64 {
			// very large pending sets (a transaction with hundreds of page writes
			// in flight): header only, everything but the header, a few prefixes
			// and random subsets
			if hdr >= 0 {
				one := mk(func(j int) bool { return j == hdr })
				emit(one, -1, 0)
				tears(one)
				emit(mk(func(j int) bool { return j != hdr }), -1, 0)
			}
			for i := 0; i < 6; i++ {
				x := 1 + p.Rng.Intn(n-1)
				emit(mk(func(j int) bool { return j < x }), -1, 0)
			}
			for i := 0; i < p.NRandom; i++ {
				pr := []float64{0.5, 0.1, 0.9}[i%3]
				emit(mk(func(int) bool { return p.Rng.Chance(pr) }), -1, 0)
			}
			continue
		}
		for x := 0; x < n; x++ {
			emit(mk(func(j int) bool { return j != x }), -1, 0)
			one := mk(func(j int) bool { return j == x })
			emit(one, -1, 0)
			if x == hdr {
				tears(one)
			}
			if x > 0 {
				emit(mk(func(j int) bool { return j < x }), -1, 0)
			}
		}
		for i := 0; i < p.NRandom; i++ {
			pr := []float64{0.5, 0.2, 0.8}[i%3]
			emit(mk(func(int) bool { return p.Rng.Chance(pr) }), -1, 0)
		}
	}
	return images
}

// headerChecksum computes the checksum of a file header (FNV-32a over the
// first 80 bytes), as documented by the on-disk layout.
func headerChecksum(h []byte) uint32 {
	f := fnv.New32a()
	f.Write(h[:80])
	return f.Sum32()
}

// rebaseTxids rewrites both headers of an image so that their transaction ids
// start at base (valid checksums). The relative order of the slots is kept.
func rebaseTxids(img []byte, pageSize int, base uint64) {
	t0 := binary.LittleEndian.Uint64(img[32:])
	t1 := binary.LittleEndian.Uint64(img[pageSize+32:])
	min := t0
	if t1 < min {
		min = t1
	}
	for _, off := range []int{0, pageSize} {
		h := img[off : off+headerSize]
		t := binary.LittleEndian.Uint64(h[32:])
		binary.LittleEndian.PutUint64(h[32:], base+(t-min))
		binary.LittleEndian.PutUint32(h[80:], headerChecksum(h))
	}
}
