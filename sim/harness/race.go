package harness

import (
	"fmt"
	"os"
	"path/filepath"
	"runtime"
	"sync"
	"sync/atomic"
	"time"

	txfile "github.com/elastic/go-txfile"
	"github.com/elastic/go-txfile/pq"

	"verifsim/simsched"
)

// Race side mode (DESIGN section 9): the "no data race" clause of C09 and C13
// can not be decided by the cooperative scheduler (every context switch creates
// a happens-before edge). This mode runs free-running goroutines on the real os
// file implementation in a binary built with -race; hooks stay disabled. The
// race detector reports only real races.

type raceObserver struct {
	n     int64
	stats atomic.Value
}

func (o *raceObserver) OnOpen(s txfile.FileStats)    { o.stats.Store(s) }
func (o *raceObserver) OnTxBegin(readonly bool)      { atomic.AddInt64(&o.n, 1) }
func (o *raceObserver) OnTxClose(s txfile.FileStats, tx txfile.TxStats) {
	o.stats.Store(s)
}

func perturb(r *simsched.Rand) {
	switch r.Intn(6) {
	case 0:
		runtime.Gosched()
	case 1:
		time.Sleep(time.Duration(r.Intn(50)) * time.Microsecond)
	}
}

// raceC09 runs readers, writers and a closer in parallel on one File.
func raceC09(seed uint64, dir string) error {
	rng := simsched.NewRand(seed)
	path := filepath.Join(dir, fmt.Sprintf("c09-%x.dat", seed))
	defer os.Remove(path)
	defer os.Remove(path + ".lock")
	obs := &raceObserver{}
	o := txfile.Options{MaxSize: 1 << 20, PageSize: 4096, Observer: obs}
	if rng.Intn(3) == 0 {
		o.MaxSize = 0
	}
	f, err := txfile.Open(path, 0o600, o)
	if err != nil {
		return err
	}
	nr, nw := 1+rng.Intn(4), 1+rng.Intn(3)
	var wg sync.WaitGroup
	var firstErr atomic.Value
	var root atomic.Uint64
	for i := 0; i < nw; i++ {
		wg.Add(1)
		r := rng.Split()
		go func() {
			defer wg.Done()
			for t := 0; t < 6; t++ {
				perturb(r)
				tx, err := f.Begin()
				if err != nil {
					firstErr.Store(err)
					return
				}
				n := 1 + r.Intn(4)
				pages, err := tx.AllocN(n)
				if err == nil {
					for _, p := range pages {
						buf := make([]byte, 4096)
						buf[0] = byte(t)
						p.SetBytes(buf)
						perturb(r)
					}
					if id := PageID(root.Load()); id >= 2 && r.Intn(2) == 0 {
						if p, err := tx.Page(id); err == nil {
							p.SetBytes(make([]byte, 4096))
						}
					}
					tx.SetRoot(pages[0].ID())
				}
				if r.Intn(2) == 0 {
					tx.Flush()
				}
				perturb(r)
				switch r.Intn(4) {
				case 0:
					tx.Rollback()
				case 1:
					tx.Close()
				default:
					if tx.Commit() == nil && err == nil {
						root.Store(uint64(pages[0].ID()))
					}
				}
			}
		}()
	}
	for i := 0; i < nr; i++ {
		wg.Add(1)
		r := rng.Split()
		go func() {
			defer wg.Done()
			for t := 0; t < 10; t++ {
				perturb(r)
				tx, err := f.BeginReadonly()
				if err != nil {
					firstErr.Store(err)
					return
				}
				if p, _ := tx.RootPage(); p != nil {
					if b, err := p.Bytes(); err == nil && len(b) > 0 {
						_ = b[0]
					}
				}
				perturb(r)
				tx.Close()
			}
		}()
	}
	wg.Wait()
	if err := f.Close(); err != nil {
		return err
	}
	if e, ok := firstErr.Load().(error); ok {
		return e
	}
	return nil
}

// raceC13 runs a producer and a consumer goroutine on one queue.
func raceC13(seed uint64, dir string) error {
	rng := simsched.NewRand(seed)
	path := filepath.Join(dir, fmt.Sprintf("c13-%x.dat", seed))
	defer os.Remove(path)
	defer os.Remove(path + ".lock")
	f, err := txfile.Open(path, 0o600, txfile.Options{MaxSize: 4 << 20, PageSize: 4096})
	if err != nil {
		return err
	}
	defer f.Close()
	dg, err := pq.NewStandaloneDelegate(f)
	if err != nil {
		return err
	}
	var flushed, acked int64
	q, err := pq.New(dg, pq.Settings{WriteBuffer: 8192,
		Flushed: func(n uint) { atomic.AddInt64(&flushed, int64(n)) },
		ACKed:   func(ev, pages uint) { atomic.AddInt64(&acked, int64(ev)) }})
	if err != nil {
		return err
	}
	w, err := q.Writer()
	if err != nil {
		return err
	}
	total := 20 + rng.Intn(40)
	var wg sync.WaitGroup
	var perr, cerr error
	var prodDone atomic.Bool
	wg.Add(2)
	pr, cr := rng.Split(), rng.Split()
	go func() {
		defer wg.Done()
		defer prodDone.Store(true)
		for i := 0; i < total; i++ {
			n := 1 + pr.Intn(6000)
			if _, err := w.Write(evChunk(seed, i, 0, n)); err != nil {
				perr = err
				return
			}
			if err := w.Next(); err != nil {
				perr = err
				return
			}
			if pr.Intn(5) == 0 {
				if err := w.Flush(); err != nil {
					perr = err
					return
				}
			}
			perturb(pr)
		}
		perr = w.Flush()
	}()
	go func() {
		defer wg.Done()
		r := q.Reader()
		got := 0
		buf := make([]byte, 8192)
		var idleSince time.Time
		reported := false
		// no spin limit: under load the producer may be slow; a real hang is caught
		// by the per-run watchdog in RaceMain
		for got < total {
			if err := r.Begin(); err != nil {
				cerr = err
				return
			}
			read := 0
			for k := 0; k < 1+cr.Intn(4); k++ {
				l, err := r.Next()
				if err != nil {
					r.Done()
					cerr = err
					return
				}
				if l == 0 {
					break
				}
				off := 0
				for off < l {
					m, err := r.Read(buf)
					if err != nil {
						r.Done()
						cerr = err
						return
					}
					if m == 0 {
						break
					}
					want := evChunk(seed, got, off, m)
					for i := 0; i < m; i++ {
						if buf[i] != want[i] {
							r.Done()
							cerr = fmt.Errorf("event %d: byte %d differs", got, off+i)
							return
						}
					}
					off += m
				}
				got++
				read++
				idleSince = time.Time{}
			}
			r.Done()
			if read > 0 && cr.Intn(2) == 0 {
				if err := q.ACK(uint(read)); err != nil {
					cerr = err
					return
				}
			} else if read > 0 {
				// ACK later together with the next batch: keep it simple, ACK now
				if err := q.ACK(uint(read)); err != nil {
					cerr = err
					return
				}
			}
			if read == 0 {
				if prodDone.Load() && int64(got) >= atomic.LoadInt64(&flushed) {
					break
				}
				if idleSince.IsZero() {
					idleSince = time.Now()
				} else if time.Since(idleSince) > 20*time.Second && !reported {
					reported = true
					pend, _ := q.Pending()
					fmt.Printf("RACE-DEBUG seed %x: consumer idle for 20s: got=%d total=%d flushed=%d acked=%d prodDone=%v perr=%v pending=%d\n", seed, got, total, atomic.LoadInt64(&flushed), atomic.LoadInt64(&acked), prodDone.Load(), perr, pend)
				}
				time.Sleep(50 * time.Microsecond)
			}
		}
		if got != total && perr == nil {
			cerr = fmt.Errorf("consumer received %d of %d events", got, total)
		}
	}()
	wg.Wait()
	q.Close()
	if perr != nil {
		return fmt.Errorf("producer: %v", perr)
	}
	return cerr
}

// RaceMain runs the side mode for the given number of seconds.
func RaceMain(prop string, seed uint64, seconds int) int {
	dir, err := os.MkdirTemp("", "verif-race-")
	if err != nil {
		fmt.Println("HARNESS-ERROR", err)
		return 2
	}
	defer os.RemoveAll(dir)
	if one := os.Getenv("VERIF_RACE_ONE"); one != "" {
		var s uint64
		fmt.Sscanf(one, "%x", &s)
		var err error
		if prop == "C13" {
			err = raceC13(s, dir)
		} else {
			err = raceC09(s, dir)
		}
		fmt.Println("RACE-ONE", err)
		return 0
	}
	deadline := time.Now().Add(time.Duration(seconds) * time.Second)
	par := runtime.NumCPU() / 2
	if par < 2 {
		par = 2
	}
	var runs, stalls int64
	var wg sync.WaitGroup
	var mu sync.Mutex
	var firstErr string
	for w := 0; w < par; w++ {
		wg.Add(1)
		go func(w int) {
			defer wg.Done()
			for i := 0; time.Now().Before(deadline); i++ {
				s := mix64(seed, uint64(w)+1, uint64(i)+1)
				runOnce := func(limit time.Duration) (error, bool) {
					doneCh := make(chan error, 1)
					go func() {
						var err error
						defer func() {
							if r := recover(); r != nil {
								err = fmt.Errorf("panic: %v", r)
							}
							doneCh <- err
						}()
						if prop == "C13" {
							err = raceC13(s, dir)
						} else {
							err = raceC09(s, dir)
						}
					}()
					select {
					case err := <-doneCh:
						return err, false
					case <-time.After(limit):
						return nil, true
					}
				}
				err, hung := runOnce(60 * time.Second)
				if hung {
					// A workload of a few milliseconds did not finish within two minutes.
					// That is either a deadlock inside the code under test or a stall of
					// the machine. Keep the goroutine dump and report a violation only
					// if the same seed hangs again (three more attempts).
					buf := make([]byte, 1<<20)
					n := runtime.Stack(buf, true)
					os.WriteFile(filepath.Join(os.TempDir(), fmt.Sprintf("verif-race-stall-%x.txt", s)), buf[:n], 0o644)
					confirmed := 0
					for k := 0; k < 2; k++ {
						if _, h := runOnce(45 * time.Second); h {
							confirmed++
						}
					}
					if confirmed == 2 {
						err = fmt.Errorf("HANG: run did not finish within 60s and hung again in 2 of 2 repetitions (readers/writers/closer or producer/consumer blocked)")
					} else {
						atomic.AddInt64(&stalls, 1)
						fmt.Printf("RACE-STALL seed %x: one run did not finish within 60s, %d of 2 repetitions hung (not confirmed, not reported)\n", s, confirmed)
					}
				}
				atomic.AddInt64(&runs, 1)
				if err != nil {
					mu.Lock()
					if firstErr == "" {
						firstErr = fmt.Sprintf("seed %x: %v", s, err)
					}
					mu.Unlock()
					return
				}
			}
		}(w)
	}
	wgDone := make(chan struct{})
	go func() { wg.Wait(); close(wgDone) }()
	select {
	case <-wgDone:
	case <-time.After(time.Duration(seconds)*time.Second + 200*time.Second):
	}
	fmt.Printf("RACE-RUNS %d\n", atomic.LoadInt64(&runs))
	mu.Lock()
	fe := firstErr
	mu.Unlock()
	if fe != "" {
		fmt.Printf("RACE-ERROR %s\n", fe)
		return 1
	}
	return 0
}
