package harness

func init() {
	probeNames["C04"] = []string{"partition_checked", "commit_ok", "tx_aborted", "reopen", "out_of_memory", "overflow_tx", "meta_grew", "wal_page_in_use", "alloc_from_freelist", "immediate_recycle"}
	register(&PropDef{
		ID: "C04", Level: "exploration", QuickSec: 50, ThoroSec: 900,
		Rule: "each run = one seeded allocation-heavy txops history (alloc/fragment/big/rollback mixes, bounded and unbounded files, InitMetaArea 0..16, overflow-enabled transactions, overwrites consuming WAL pages, rollbacks, failed commits, reopen). Every id returned by Alloc/AllocN is checked against the committed live set, the running transaction, pages it freed, and the engine's internal page sets (allocator/WAL snapshot); after every transaction the snapshot must partition the file without overlap and contents of all live pages are compared with the model. Non-trivial = run in which an allocation was served from the free list or recycled a page; distinct = hash of op list + configuration + schedule.",
		Real: defaultReal, Stub: defaultStub, Assume: defaultAssume,
		Body: func(e *Env) {
			rng := e.Rng("c04")
			r := txWorkload(e, 0, func(r *Runner, g *Gen) {
				c := e.Case
				if !c.Explicit {
					c.Cfg.Mix = []string{"alloc", "fragment", "big", "rollback", "balanced", "overwrite"}[rng.Intn(6)]
					if rng.Intn(3) == 0 {
						c.Cfg.InitMeta = 0
					}
					c.Cfg.Overflow = c.Cfg.MaxSize > 0 && rng.Intn(4) == 0
					r.Cfg = *c.Cfg
					*g = *NewGen(r, e.Rng("ops"), c.Cfg.Mix)
				}
			})
			if !e.Failed() && r.F != nil {
				r.Reopen()
			}
			if r.F != nil {
				s := TakePartition(r.F)
				if len(s.Snap.WALMapping) > 0 {
					e.Probe("wal_page_in_use")
				}
				if int(s.Snap.MetaTotal) > e.Case.Cfg.InitMeta {
					e.Probe("meta_grew")
				}
			}
			if e.Case.Cfg.Overflow {
				e.Probe("overflow_tx")
			}
			r.Close()
			e.Res.Sig = sigOf(r, uint64(e.Case.Cfg.PageSize), uint64(e.Case.Cfg.MaxSize), uint64(e.Case.Cfg.InitMeta), e.Res.SchedHash)
			e.Res.Nontrivial = e.Res.Probes["alloc_from_freelist"]+e.Res.Probes["immediate_recycle"] > 0
		},
	})
}
