package harness

import (
	"fmt"

	txfile "github.com/elastic/go-txfile"

	"verifsim/simdisk"
)

// crashWindows resolves, for a crash index, the allowed states.
type crashWindows struct {
	r *Runner
}

func (w crashWindows) at(k int) (last *State, inprog *CommitRec) {
	last = w.r.Hist[0]
	for i := range w.r.Commits {
		c := &w.r.Commits[i]
		if c.OK && c.End < k {
			last = c.State
		}
		if c.Begin < k && (c.End < 0 || k <= c.End) {
			inprog = c
		}
	}
	return
}

// evalRecovered opens an image and checks it against the allowed states.
// Returns the runner of the recovered file (closed) or nil.
func evalRecovered(e *Env, prop string, cfg Cfg, img []byte, last *State, inprog *CommitRec, cont bool, contSeed uint64, desc string, nested ...bool) {
	d2 := simdisk.NewFromImage("image", e.S, img)
	d2.YieldIO = false
	d2.LogData = len(nested) > 0 && nested[0]
	r2 := NewRunner(e, d2, cfg)
	r2.AsProp = prop
	var err error
	if e.Guard(prop, "Open of crash image ("+desc+")", func() { err = r2.Open() }) {
		return
	}
	if err != nil {
		e.Fail(prop, "open-failed", "%s: reopening failed: %v", desc, err)
		return
	}
	defer func() {
		if r2.F != nil {
			r2.tx = nil
			r2.E.CloseFile(r2.F)
		}
	}()
	hdr := txfile.VerifHeaderSnapshot(r2.F)
	var exp *State
	switch {
	case hdr.TxID == last.TxID:
		exp = last
		e.Probe("recovered_last")
	case inprog != nil && hdr.TxID == inprog.Prev.TxID+1:
		exp = inprog.State
		e.Probe("recovered_inprogress")
	default:
		ip := "none"
		if inprog != nil {
			ip = fmt.Sprintf("#%d(txid %d)", inprog.State.N, inprog.Prev.TxID+1)
		}
		e.Fail(prop, "wrong-txid", "%s: recovered header txid %d; allowed: last committed #%d(txid %d), commit in progress %s", desc, hdr.TxID, last.N, last.TxID, ip)
		return
	}
	st := exp.clone()
	st.TxID = hdr.TxID
	r2.Hist = []*State{st}
	r2.VerifyAll(desc + ": recovered state")
	if e.Failed() {
		return
	}
	r2.CheckPartition()
	r2.CheckLocksIdle(desc + ": after recovery open")
	if e.Failed() || !cont {
		return
	}
	// continuation: the recovered file must be fully operational
	e.Probe("continuation")
	g := NewGen(r2, e.Rng(fmt.Sprintf("cont-%d", contSeed)), "balanced")
	g.NoReopen = true
	ended := 0
	for ended < 2 && !e.Failed() {
		op := g.Next()
		if r2.Apply(op) {
			switch op.K {
			case "commit", "rollback", "closetx":
				ended++
			}
		}
	}
	if r2.InTx() && !e.Failed() {
		r2.Apply(Op{K: "rollback"})
	}
	if d2.LogData && !e.Failed() {
		// second crash: the transactions that ran on the recovered file are cut
		// at every I/O boundary again (a power failure right after a recovery)
		e.Probe("second_crash_after_recovery")
		win2 := crashWindows{r2}
		plan2 := CrashPlan{From: 0, MaxExh: 4, NRandom: 4, PageSize: cfg.PageSize, Tear: true, Rng: e.Rng(fmt.Sprintf("crash2-%d", contSeed)), Stop: func() bool { return e.Failed() || outOfTime() }}
		log2 := append([]simdisk.Op(nil), d2.Log...)
		n2 := 0
		EnumerateCrashes(log2, img, plan2, func(k int, ch *CrashChoice, n int, img2 []byte) {
			n2++
			last2, inprog2 := win2.at(k)
			d := fmt.Sprintf("%s; recovered, %d more transactions, second crash before I/O #%d of them, %d of %d pending kept %v", desc, len(r2.Commits), k, len(ch.Keep), n, ch.Keep)
			if ch.TearPos >= 0 {
				d += fmt.Sprintf(", header write torn after %d bytes", ch.TearLen)
			}
			evalRecovered(e, prop, cfg, img2, last2, inprog2, false, 0, d)
		})
		e.Res.Evals += n2
	}
	if !e.Failed() && !(d2.LogData && outOfTime()) {
		r2.Reopen()
	}
}

func init() {
	probeNames["C01"] = []string{"recovered_last", "recovered_inprogress", "continuation", "pending_gt_exh", "torn_header", "txid_wrap", "truncate_pending", "image_nonempty_pending", "commit_ok", "reopen", "big_transaction", "writer_batch_limit_reached", "second_crash_after_recovery"}
	register(&PropDef{
		ID: "C01", Level: "fault_enumeration", QuickSec: 55, ThoroSec: 1200,
		Rule: "each run = one seeded txops history (config and writer timing drawn per run); evaluations = crash images: for EVERY op-log index after file creation (crash just before that I/O call) x subsets of the writes/truncates issued since the last completed sync (all 2^n subsets for n<=6 quick / 8 thorough, else none/all/all-but-one/singletons/prefixes/random) x header tears at all field boundaries + random offsets; each image is opened by the real engine and compared with the allowed model state selected by header txid, then every 4th image runs a continuation workload + reopen; for up to 4 (thorough: 12) of the continued images per run, preferably ones with a torn header, the continuation itself is cut at every I/O boundary again (second crash right after a recovery, reduced subset family, header tears) and evaluated the same way. The enumeration of the run that is in progress when the batch budget ends is cut short (its remaining crash points are not evaluated). Non-trivial = image with at least one pending op; distinct = (run signature, crash index, kept subset, tear).",
		Real: defaultReal, Stub: defaultStub, Assume: defaultAssume,
		FaultKinds: []string{"crash at every I/O boundary", "lost un-synced page writes (subset enumeration)", "reordered writes (subset semantics)", "torn header write", "lost truncate"},
		Body: c01Body,
	})
}

func c01Body(e *Env) {
	c := e.Case
	var initImg []byte
	logStart := 0
	rngCfg := e.Rng("c01cfg")
	big := false
	if c.Cfg == nil && rngCfg.Intn(25) == 0 {
		// "big transaction" variant: more page writes in flight than the writer
		// takes in one batch (1024), writer goroutine starved
		cfg := DrawCfg(e.Rng("cfg"), -1)
		cfg.PageSize, cfg.MaxSize, cfg.InitMeta = 1024, 0, []int{0, 16}[rngCfg.Intn(2)]
		cfg.BgWeight, cfg.Stick, cfg.WALLimit = 0.05, 0.9, 1000
		cfg.NTx = 3
		cfg.Variant = 9
		c.Cfg = &cfg
		n := 1040 + rngCfg.Intn(700)
		var ops []Op
		ops = append(ops, Op{K: "begin"})
		for left := n; left > 0; left -= 200 {
			ops = append(ops, Op{K: "allocn", A: min(left, 200)})
		}
		for i := 0; i < n; i++ {
			ops = append(ops, Op{K: "setfull", A: i})
		}
		ops = append(ops, Op{K: "commit"}, Op{K: "begin"})
		m := 1030 + rngCfg.Intn(n-1030)
		for i := 0; i < m; i++ {
			ops = append(ops, Op{K: "setfull", A: i})
		}
		ops = append(ops, Op{K: "commit"})
		c.Tasks = map[string][]Op{"main": ops}
	}
	if c.Cfg != nil && c.Cfg.Variant == 9 {
		big = true
		e.Probe("big_transaction")
	}
	r := txWorkload(e, 0, func(r *Runner, g *Gen) {
		if c.Cfg.NTx > 12 {
			c.Cfg.NTx = 3 + c.Cfg.NTx%10
			r.Cfg.NTx = c.Cfg.NTx
		}
		if !c.Explicit && c.Cfg.TxidBase == 0 && rngCfg.Intn(8) == 0 {
			c.Cfg.TxidBase = []uint64{^uint64(0) - 2, 1<<63 - 3, ^uint64(0) - 6}[rngCfg.Intn(3)]
			r.Cfg.TxidBase = c.Cfg.TxidBase
		}
		r.AfterCreate = func() {
			if r.Cfg.TxidBase != 0 {
				r.E.CloseFile(r.F)
				r.F = nil
				rebaseTxids(r.D.Content(), r.Cfg.PageSize, r.Cfg.TxidBase)
				if err := r.Open(); err != nil {
					e.Fail("C01", "open-failed", "open after txid rebase failed: %v", err)
					return
				}
				e.Probe("txid_wrap")
			}
			initImg = r.D.Snapshot()
			logStart = len(r.D.Log)
		}
	})
	if e.Failed() || r.F == nil || initImg == nil {
		return
	}
	r.Close()
	if e.Failed() {
		return
	}
	runSig := sigOf(r, uint64(c.Cfg.PageSize), uint64(c.Cfg.MaxSize), e.Res.SchedHash)
	e.Res.Sig = runSig
	log := r.D.Log[logStart:]
	win := crashWindows{r}
	maxExh := 6
	nrand := 12
	if c.Tier == "thorough" {
		maxExh, nrand = 8, 32
	}
	plan := CrashPlan{From: 0, MaxExh: maxExh, NRandom: nrand, PageSize: c.Cfg.PageSize, Tear: true, Rng: e.Rng("crash"), Only: c.Crash, Stop: func() bool { return e.Failed() || outOfTime() }, SparseK: big}
	evals := 0
	nestRng := e.Rng("c01nest")
	nestedLeft := 4
	if c.Tier == "thorough" {
		nestedLeft = 12
	}
	for _, op := range log {
		if op.Kind == simdisk.OpTruncate {
			e.Probe("truncate_pending")
			break
		}
	}
	EnumerateCrashes(log, initImg, plan, func(k int, ch *CrashChoice, n int, img []byte) {
		evals++
		absK := k + logStart
		last, inprog := win.at(absK)
		desc := fmt.Sprintf("crash before I/O #%d, %d of %d pending kept %v", k, len(ch.Keep), n, ch.Keep)
		if ch.TearPos >= 0 {
			desc += fmt.Sprintf(", header write torn after %d bytes", ch.TearLen)
			e.Probe("torn_header")
		}
		if n > 0 {
			e.Probe("image_nonempty_pending")
			e.Res.Nontrivial = true
			h := runSig
			for _, j := range ch.Keep {
				h = (h ^ uint64(j+1)) * 1099511628211
			}
			h = (h ^ uint64(k)<<20 ^ uint64(ch.TearPos+2)<<8 ^ uint64(ch.TearLen)) * 1099511628211
			e.Res.Sigs = append(e.Res.Sigs, h)
		}
		if n > maxExh {
			e.Probe("pending_gt_exh")
		}
		if n >= 1024 {
			e.Probe("writer_batch_limit_reached")
		}
		cont := evals%4 == 0 || k == len(log)
		nested := false
		if cont && !big && nestedLeft > 0 && c.Crash == nil {
			if ch.TearPos >= 0 {
				nested = nestRng.Intn(10) == 0
			} else {
				nested = nestRng.Intn(150) == 0
			}
			if nested {
				nestedLeft--
			}
		}
		if c.Crash != nil {
			cont, nested = c.Crash.Cont, c.Crash.Nested
		}
		ch.Cont, ch.Nested = cont, nested
		evalRecovered(e, "C01", r.Cfg, img, last, inprog, cont, uint64(evals), desc, nested)
		if e.Failed() && c.Crash == nil {
			c.Crash = ch
		}
	})
	e.Res.Evals = evals
	if evals == 0 {
		e.Res.Evals = 1
	}
}
