package harness

import (
	"fmt"

	txfile "github.com/elastic/go-txfile"

	"verifsim/simdisk"
)

func init() {
	probeNames["C11"] = []string{"conservation_checked", "probe_zero", "commit_ok", "tx_aborted", "commit_failed", "out_of_memory", "reopen", "meta_grew", "file_full_cycle", "prealloc", "continued_after_crash_recovery", "big_free_region_preset", "reopen_with_bigger_limit"}
	register(&PropDef{
		ID: "C11", Level: "exploration", QuickSec: 50, ThoroSec: 900,
		Rule: "each run = one long seeded alloc/free history (20-150 transactions quick, up to 600 thorough; fill-to-out-of-space and free cycles, rollbacks, failed commits, overwrites, reopen, and reopens that raise the limit through FlagUpdMaxSize, also to values that are no page multiple) on a size-bounded configuration (max size, page size, init meta area, prealloc) on which no transaction enables the overflow area. At every quiescent point: capacity probe (allocate one page at a time until OutOfMemory, roll back) + live pages (model) + meta area + 2 header pages == max pages; the allocator snapshot covers [2,end) without gaps (no leaked page) and meta accounting adds up; the simulated file never exceeded max size; FileStats (DataAllocated, MetaArea, MetaAllocated) equal model/snapshot, also right after reopen. Non-trivial = run that reached out-of-space at least once and continued; distinct = op list + config + schedule hash.",
		Real: defaultReal, Stub: defaultStub, Assume: defaultAssume,
		Body: c11Body,
	})
}

func c11Check(e *Env, r *Runner, when string, doProbe bool) {
	if e.Failed() || r.F == nil {
		return
	}
	snap := txfile.VerifAllocSnapshot(r.F)
	live := 0
	for range r.Cur().Pages {
		live++
	}
	maxPages := r.Cfg.MaxSize / r.Cfg.PageSize
	if int(snap.MaxPages) != maxPages {
		e.Fail("C11", "max-pages", "%s: allocator limit is %d pages, configured maximum is %d pages", when, snap.MaxPages, maxPages)
		return
	}
	st := txfile.VerifFileStats(r.F)
	if int(st.DataAllocated) != live {
		e.Fail("C11", "stats", "%s: FileStats.DataAllocated=%d but %d data pages are live", when, st.DataAllocated, live)
		return
	}
	if st.MetaArea != snap.MetaTotal {
		e.Fail("C11", "stats", "%s: FileStats.MetaArea=%d but the meta area holds %d pages", when, st.MetaArea, snap.MetaTotal)
		return
	}
	if st.MetaAllocated != snap.MetaTotal-snap.MetaAvail {
		e.Fail("C11", "stats", "%s: FileStats.MetaAllocated=%d but %d of %d meta pages are in use", when, st.MetaAllocated, snap.MetaTotal-snap.MetaAvail, snap.MetaTotal)
		return
	}
	if r.D.ExtentMax > int64(r.Cfg.MaxSize) {
		e.Fail("C11", "extent", "%s: the file grew to %d bytes, maximum size is %d", when, r.D.ExtentMax, r.Cfg.MaxSize)
		return
	}
	if doProbe {
		n, err := capacityProbe(r, 1<<20)
		if err != nil {
			e.Fail("C11", "probe", "%s: capacity probe failed: %v", when, err)
			return
		}
		want := maxPages - 2 - live - int(snap.MetaTotal)
		if n != want {
			e.Fail("C11", "conservation", "%s: %d pages can be allocated, expected max(%d) - 2 headers - %d live - %d meta area = %d", when, n, maxPages, live, snap.MetaTotal, want)
			return
		}
		if n == 0 {
			e.Probe("probe_zero")
		}
		e.Probe("conservation_checked")
		// what the probe allocated page by page must also be allocatable at once
		if n > 0 {
			tx, err := r.F.Begin()
			if err != nil {
				e.Fail("C11", "probe", "%s: Begin failed: %v", when, err)
				return
			}
			if _, err := tx.AllocN(n); err != nil {
				e.Fail("C11", "spurious-out-of-memory", "%s: %d pages are allocatable one by one, but AllocN(%d) fails: %v", when, n, n, err)
			}
			if err := tx.Rollback(); err != nil {
				e.Fail("C11", "probe", "%s: Rollback failed: %v", when, err)
			}
		}
	}
}

func c11Body(e *Env) {
	c := e.Case
	rng := e.Rng("c11")
	probeRng := e.Rng("c11probe")
	everOOM := false
	if c.Cfg == nil && rng.Intn(12) == 0 {
		// free regions of 254..260 pages (escape encoding threshold of the free list) and a reopen
		cfg := DrawCfg(e.Rng("cfg"), 1)
		cfg.PageSize, cfg.MaxSize, cfg.Overflow, cfg.Variant = 1024, 512<<10, false, 2
		cfg.NTx = 6
		c.Cfg = &cfg
		c.Tasks = map[string][]Op{"main": append(c10Preset(Cfg{Variant: 2}, rng)[:0:0], append(presetNoReopenB(c10Preset(Cfg{Variant: 2}, rng)), Op{K: "reopen"}, Op{K: "begin"}, Op{K: "allocn", A: 40}, Op{K: "commit"}, Op{K: "reopen"})...)}
		e.Probe("big_free_region_preset")
	}
	r := txWorkload(e, 1, func(r *Runner, g *Gen) {
		if !c.Explicit {
			c.Cfg.Overflow = false
			c.Cfg.NTx = 20 + rng.Intn(130)
			if c.Tier == "thorough" {
				c.Cfg.NTx = 50 + rng.Intn(550)
			}
			c.Cfg.Mix = []string{"alloc", "fragment", "big", "balanced", "rollback", "overwrite"}[rng.Intn(6)]
			c.Cfg.NoYieldIO = rng.Intn(3) > 0
			if rng.Intn(3) == 0 {
				c.Cfg.Variant = 1 // continue on a crash-recovered image
			}
			r.Cfg = *c.Cfg
			r.D.YieldIO = !c.Cfg.NoYieldIO
			*g = *NewGen(r, e.Rng("ops"), c.Cfg.Mix)
		}
		g.NoOverflow = true
		r.CheckCover = true
		r.NoPostCheck = probeRng.Intn(2) == 0
		// some reopens raise the limit (also to values that are not a multiple of
		// the page size: rounded down); conservation then holds for the new limit
		growRng := e.Rng("c11grow")
		r.ReopenFn = func() {
			if growRng.Intn(3) != 0 || r.Cfg.MaxSize == 0 {
				r.Reopen()
				return
			}
			ps := r.Cfg.PageSize
			newMax := r.Cfg.MaxSize + (1+growRng.Intn(8))*ps + []int{0, 100, ps - 1}[growRng.Intn(3)]
			if err := e.CloseFile(r.F); err != nil {
				e.Fail("C10", "close-error", "File.Close failed: %v", err)
				return
			}
			r.F = nil
			o := r.Options()
			o.Flags |= txfile.FlagUpdMaxSize
			o.MaxSize = uint64(newMax)
			o.InitMetaArea = 0
			if err := r.OpenWith(o); err != nil {
				e.Fail("C14", "reopen-error", "open with FlagUpdMaxSize (max size %d -> %d) failed: %v", r.Cfg.MaxSize, newMax, err)
				return
			}
			e.Probe("reopen_with_bigger_limit")
			r.Cfg.MaxSize = newMax / ps * ps
			r.Cur().TxID = txfile.VerifHeaderSnapshot(r.F).TxID
			when := fmt.Sprintf("after reopen with FlagUpdMaxSize (new max size %d)", newMax)
			r.VerifyAll(when)
			r.CheckPartition()
			r.CheckLocksIdle(when)
			if r.OnQuiescent != nil && !e.Failed() {
				r.OnQuiescent(when)
			}
		}
		r.AfterCreate = func() { c11Check(e, r, "after creating the file", true) }
		r.OnQuiescent = func(when string) {
			if r.txOOMSeen {
				everOOM = true
			}
			c11Check(e, r, when, probeRng.Intn(3) == 0)
		}
		r.OnCommitResult = func(rec *CommitRec, err error) {
			if err == nil || r.F == nil {
				return
			}
			// alloc/free cycles must be able to continue: a commit may only run
			// out of space if space is actually scarce
			// (the failed transaction has been rolled back already: compute the space
			// that was left while its pages were still allocated)
			snap := txfile.VerifAllocSnapshot(r.F)
			free := int(snap.MaxPages) - 2 - int(snap.MetaTotal) - len(rec.State.Pages) - len(rec.Prev.Pages)
			need := 0
			for id := range rec.State.Pages {
				if _, was := rec.Prev.Pages[id]; was {
					need++ // upper bound for overwritten pages (each needs one WAL page)
				}
			}
			if free >= 2*need+2*int(snap.MetaTotal)+48 {
				e.Fail("C11", "spurious-out-of-memory", "Commit #%d failed (%v) although %d pages are free (at most %d overwritten pages, meta area %d pages)", rec.State.N, err, free, need, snap.MetaTotal)
			}
		}
	})
	if c.Cfg.Prealloc {
		e.Probe("prealloc")
	}
	// optional second phase on a crash-recovered image: the conservation
	// invariant must keep holding after recovery (no page leaked by the crash)
	if !e.Failed() && r.F != nil && c.Cfg.Variant == 1 && !r.InTx() {
		b := simdisk.NewImageBuilder(r.D.Log, nil)
		b.Advance(len(r.D.Log))
		pend := b.PendingOps()
		keep := make([]bool, len(pend))
		crng := e.Rng("c11crash")
		for i := range keep {
			keep[i] = crng.Intn(2) == 0
		}
		img := b.Image(keep, -1, 0)
		cur := r.Cur()
		r.Close()
		d2 := e.NewDiskFromImage("recovered", img)
		d2.YieldIO = r.D.YieldIO
		r2 := NewRunner(e, d2, r.Cfg)
		r2.Hist = []*State{cur.clone()}
		r2.CheckCover = true
		if err := r2.Open(); err != nil {
			e.Fail("C01", "open-failed", "opening the image after a crash at a quiescent point failed: %v", err)
			return
		}
		e.Probe("continued_after_crash_recovery")
		r2.OnQuiescent = func(when string) {
			if r2.txOOMSeen {
				everOOM = true
			}
			c11Check(e, r2, "after crash recovery, "+when, probeRng.Intn(3) == 0)
		}
		c11Check(e, r2, "right after crash recovery", true)
		g2 := NewGen(r2, e.Rng("ops2"), c.Cfg.Mix)
		g2.NoOverflow = true
		var explicit2 []Op
		if c.Explicit {
			explicit2 = c.Tasks["after"]
			if explicit2 == nil {
				explicit2 = []Op{}
			}
		}
		runHistory(e, r2, g2, explicit2, c.Cfg.NTx/2+1, "C11", nil)
		if r2.InTx() && !e.Failed() {
			r2.Apply(Op{K: "rollback"})
		}
		c.Tasks["after"] = r2.Ops
		r = r2
	}
	if !e.Failed() && r.F != nil {
		c11Check(e, r, "end of history", true)
		r.Reopen()
		c11Check(e, r, "after final reopen", true)
	}
	if everOOM {
		e.Probe("file_full_cycle")
	}
	if r.F != nil && int(txfile.VerifAllocSnapshot(r.F).MetaTotal) > c.Cfg.InitMeta {
		e.Probe("meta_grew")
	}
	r.Close()
	e.Res.Sig = sigOf(r, uint64(c.Cfg.PageSize), uint64(c.Cfg.MaxSize), uint64(c.Cfg.InitMeta))
	e.Res.Nontrivial = everOOM
}

// presetNoReopenB drops the twin-only "reopenB" operations of a C10 preset.
func presetNoReopenB(ops []Op) []Op {
	var out []Op
	for _, op := range ops {
		if op.K != "reopenB" {
			out = append(out, op)
		}
	}
	return out
}
