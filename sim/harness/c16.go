package harness

import (
	"encoding/binary"
	"fmt"
	"os"
	"path/filepath"

	txfile "github.com/elastic/go-txfile"

	"verifsim/simdisk"
	"verifsim/simsched"
)

func init() {
	probeNames["C16"] = []string{"bitflip", "copy_of_other", "tear_over_old", "tear_zero", "zeroed", "scribble", "field", "outside_header", "both_damaged", "damaged_newest", "damaged_older", "still_valid_skipped", "txid_wrap", "slot0_newest", "slot1_newest"}
	register(&PropDef{
		ID: "C16", Level: "fault_enumeration", QuickSec: 55, ThoroSec: 1200,
		Rule: "each run = one seeded committed history (all page sizes, some re-based to txids around 2^64 and 2^63); after a seeded commit n an image is taken (S_n and S_{n-1} both intact). Evaluations = damaged images opened by the real engine: for each of the two header slots all 672 single-bit flips of the 84 header bytes, all byte-prefix tears (prefix of the slot content followed by the slot's previous content, and followed by zeros), zeroed slot, 64 random multi-byte scribbles (thorough; 24 quick), bit flips in the rest of the header page (must change nothing), and sampled pairs with both slots damaged. Oracle: newest slot damaged => Open succeeds and state == S_{n-1} (by header txid and full content); older slot damaged => S_n; damage outside the 84 bytes => S_n; both damaged => Open returns an error; never a panic. 1 run in 40 also writes the image with both headers damaged to a real sparse file of 2-4 GiB and opens it through the real osfs (must return an error; a scan that does not terminate is reported by the run monitor as a hang). A damaged slot that still validates (checksum collision or no-op tear) is skipped and counted. Non-trivial = damaged image whose damaged slot no longer validates; distinct = (run, slot, kind, offset, bit/len).",
		Real: defaultReal, Stub: defaultStub, Assume: append(append([]string{}, defaultAssume...), "header layout and FNV-32a checksum over the first 80 bytes as documented in layout.go (harness recomputes validity independently)"),
		FaultKinds: []string{"stored header bit flip", "torn header write (byte prefix)", "zeroed header", "random multi-byte damage", "both headers damaged"},
		Body:       c16Body,
	})
}

const fileMagic = 0xBEA77AEB

func headerValid(h []byte) bool {
	return binary.LittleEndian.Uint32(h[0:]) == fileMagic && binary.LittleEndian.Uint32(h[4:]) == 1 && binary.LittleEndian.Uint32(h[80:]) == headerChecksum(h)
}

type c16img struct {
	img  []byte
	prev []byte // image after the previous commit (slot contents before the last header write)
	sn   *State // state of the newest header
	sp   *State // state of the older header
}

func c16Body(e *Env) {
	c := e.Case
	rng := e.Rng("c16")
	var snaps []c16img
	var lastImg []byte
	r := txWorkload(e, 0, func(r *Runner, g *Gen) {
		if !c.Explicit {
			c.Cfg.NTx = 2 + rng.Intn(6)
			c.Cfg.NoYieldIO = true
			if rng.Intn(3) == 0 {
				c.Cfg.TxidBase = []uint64{^uint64(0) - 2, 1<<63 - 3, ^uint64(0) - 5, 1<<63 - 2, ^uint64(0) - 1, 1<<63 - 1}[rng.Intn(6)]
			}
			r.Cfg = *c.Cfg
			r.D.YieldIO = false
		}
		g.NoReopen = true
		r.AfterCreate = func() {
			if r.Cfg.TxidBase != 0 {
				r.E.CloseFile(r.F)
				r.F = nil
				rebaseTxids(r.D.Content(), r.Cfg.PageSize, r.Cfg.TxidBase)
				if err := r.Open(); err != nil {
					e.Fail("C16", "open-failed", "open after txid rebase failed: %v", err)
					return
				}
				e.Probe("txid_wrap")
			}
			lastImg = r.D.Snapshot()
		}
		r.OnCommitted = func(st *State) {
			img := r.D.Snapshot()
			if len(r.Hist) >= 2 {
				snaps = append(snaps, c16img{img: img, prev: lastImg, sn: st, sp: r.Hist[len(r.Hist)-2]})
			}
			lastImg = img
		}
	})
	if e.Failed() {
		return
	}
	r.Close()
	if len(snaps) == 0 {
		return
	}
	runSig := sigOf(r, uint64(c.Cfg.PageSize), uint64(c.Cfg.MaxSize))
	e.Res.Sig = runSig
	// one image per run (seeded), so that odd and even commit counts (both slot orders) are covered across runs
	pick := snaps[rng.Intn(len(snaps))]
	if c.Damage != nil && c.Damage.Off < 0 {
		pick = snaps[len(snaps)-1]
	}
	if c.Crash != nil { // replay: image index stored in Crash.K
		if c.Crash.K < len(snaps) {
			pick = snaps[c.Crash.K]
		}
	} else {
		for i := range snaps {
			if &snaps[i].img[0] == &pick.img[0] {
				c.Crash = &CrashChoice{K: i, TearPos: -1}
			}
		}
	}
	ps := c.Cfg.PageSize
	img := pick.img
	if !c.Explicit && c.Damage == nil && rng.Intn(40) == 0 {
		c.Cfg.Variant2 = 12
	}
	if c.Cfg.Variant2 == 12 && c.Damage == nil {
		c16BigFile(e, img, ps, rng)
		if e.Failed() {
			return
		}
	}
	// which slot is the newest?
	t0 := binary.LittleEndian.Uint64(img[32:])
	t1 := binary.LittleEndian.Uint64(img[ps+32:])
	newest := 1
	if int64(t0-t1) > 0 {
		newest = 0
	}
	e.Probe(fmt.Sprintf("slot%d_newest", newest))
	nScribble := 24
	if c.Tier == "thorough" {
		nScribble = 64
	}
	evals := 0
	work := make([]byte, len(img))
	eval := func(dm *Damage) {
		if e.Failed() || (c.Damage == nil && outOfTime()) {
			return
		}
		copy(work, img)
		applyDamage(work, pick.prev, ps, dm)
		damagedValid := [2]bool{headerValid(work[0:headerSize]), headerValid(work[ps : ps+headerSize])}
		var exp *State
		expErr := false
		switch {
		case dm.Kind == "outside":
			exp = pick.sn
		case dm.Kind == "copy_of_other":
			// the slot holds a byte-identical copy of the other header (misdirected or
			// duplicated write): both describe the state of the other slot
			if dm.Slot == newest {
				exp = pick.sp
			} else {
				exp = pick.sn
			}
		case dm.Slot2 != nil:
			if damagedValid[0] || damagedValid[1] {
				e.Probe("still_valid_skipped")
				return
			}
			expErr = true
		default:
			if damagedValid[dm.Slot] {
				e.Probe("still_valid_skipped")
				return
			}
			if dm.Slot == newest {
				exp = pick.sp
				e.Probe("damaged_newest")
			} else {
				exp = pick.sn
				e.Probe("damaged_older")
			}
		}
		evals++
		switch {
		case dm.Slot2 != nil:
			e.Probe("both_damaged")
		case dm.Kind == "outside":
			e.Probe("outside_header")
		default:
			e.Probe(dm.Kind)
		}
		e.Res.Nontrivial = true
		if len(e.Res.Sigs) < 4000 {
			e.Res.Sigs = append(e.Res.Sigs, simsched.Mix(runSig, uint64(dm.Slot), fnv64(dm.Kind), uint64(dm.Off), uint64(dm.Bit), uint64(dm.Len)))
		}
		desc := fmt.Sprintf("header slot %d damaged (%s off=%d bit=%d len=%d), newest slot is %d", dm.Slot, dm.Kind, dm.Off, dm.Bit, dm.Len, newest)
		if dm.Slot2 != nil {
			desc = fmt.Sprintf("both header slots damaged (%s off=%d / %s off=%d)", dm.Kind, dm.Off, dm.Slot2.Kind, dm.Slot2.Off)
		}
		d2 := simdisk.NewFromImage("image", e.S, work)
		d2.YieldIO, d2.LogData = false, false
		r2 := NewRunner(e, d2, r.Cfg)
		r2.AsProp = "C16"
		var err error
		if e.Guard("C16", "Open ("+desc+")", func() { err = r2.OpenRaw() }) {
			c.Damage = dm
			return
		}
		if expErr {
			if err == nil {
				r2.E.CloseFile(r2.F)
				e.Fail("C16", "both-damaged-opened", "%s: Open succeeded although no header is intact", desc)
				c.Damage = dm
			}
			return
		}
		if err != nil {
			e.Fail("C16", "open-failed", "%s: Open fails although the other header is intact: %v", desc, err)
			c.Damage = dm
			return
		}
		hdr := txfile.VerifHeaderSnapshot(r2.F)
		if hdr.TxID != exp.TxID {
			e.Fail("C16", "wrong-header", "%s: Open selected header txid %d, expected txid %d (state #%d)", desc, hdr.TxID, exp.TxID, exp.N)
		} else {
			r2.Hist = []*State{exp}
			r2.VerifyAll(desc)
			if !e.Failed() && evals%16 == 0 {
				r2.CheckPartition()
			}
		}
		if e.Failed() {
			c.Damage = dm
		}
		r2.E.CloseFile(r2.F)
	}
	if c.Damage != nil { // replay one damage
		eval(c.Damage)
		e.Res.Evals = 1
		return
	}
	drng := e.Rng("damage")
	// both headers intact: the newer commit wins (also across txid wrap-around)
	eval(&Damage{Slot: 0, Kind: "outside", Off: headerSize, Bit: 0, Len: -1})
	eval(&Damage{Slot: 0, Kind: "copy_of_other"})
	eval(&Damage{Slot: 1, Kind: "copy_of_other"})
	for slot := 0; slot < 2 && !e.Failed(); slot++ {
		for off := 0; off < headerSize; off++ {
			for bit := 0; bit < 8; bit++ {
				eval(&Damage{Slot: slot, Kind: "bitflip", Off: off, Bit: bit})
			}
		}
		for l := 0; l < headerSize; l++ {
			eval(&Damage{Slot: slot, Kind: "tear_over_old", Len: l})
			eval(&Damage{Slot: slot, Kind: "tear_zero", Len: l})
		}
		eval(&Damage{Slot: slot, Kind: "zeroed"})
		for i := 0; i < nScribble; i++ {
			n := 1 + drng.Intn(12)
			b := make([]byte, n)
			for j := range b {
				b[j] = byte(drng.Uint64())
			}
			eval(&Damage{Slot: slot, Kind: "scribble", Off: drng.Intn(headerSize - n + 1), Bytes: b})
		}
		for i := 0; i < 16; i++ {
			eval(&Damage{Slot: slot, Kind: "outside", Off: headerSize + drng.Intn(ps-headerSize), Bit: drng.Intn(8)})
		}
		// field-aware damage: plausible-looking values in single header fields
		// (other power-of-two page sizes, neighbouring txids, other limits...)
		le32 := func(v uint32) []byte { b := make([]byte, 4); binary.LittleEndian.PutUint32(b, v); return b }
		le64 := func(v uint64) []byte { b := make([]byte, 8); binary.LittleEndian.PutUint64(b, v); return b }
		for sh := uint(0); sh < 32; sh++ {
			eval(&Damage{Slot: slot, Kind: "field", Off: 8, Bytes: le32(1 << sh)}) // page size
		}
		for _, v := range []uint32{0, 1023, 1025, 0xFFFFFFFF, uint32(ps) + 1, uint32(ps) - 1} {
			eval(&Damage{Slot: slot, Kind: "field", Off: 8, Bytes: le32(v)})
		}
		otherTx := binary.LittleEndian.Uint64(img[(1-slot)*ps+32:])
		for _, v := range []uint64{0, 1, ^uint64(0), 1 << 63, otherTx, otherTx + 1, otherTx - 1, otherTx + 2} {
			eval(&Damage{Slot: slot, Kind: "field", Off: 32, Bytes: le64(v)}) // txid
		}
		for _, v := range []uint64{0, 1 << 16, 1 << 20, ^uint64(0), uint64(len(img))} {
			eval(&Damage{Slot: slot, Kind: "field", Off: 12, Bytes: le64(v)}) // max size
		}
		for _, off := range []int{24, 40, 48, 56, 64, 72} { // root, freelist, wal, end markers, meta total
			for _, v := range []uint64{0, 2, 1 << 20, ^uint64(0)} {
				eval(&Damage{Slot: slot, Kind: "field", Off: off, Bytes: le64(v)})
			}
		}
		eval(&Damage{Slot: slot, Kind: "field", Off: 0, Bytes: le32(fileMagic + 1)})
		eval(&Damage{Slot: slot, Kind: "field", Off: 4, Bytes: le32(2)})
	}
	for i := 0; i < 24 && !e.Failed(); i++ {
		mk := func(slot int) *Damage {
			switch drng.Intn(3) {
			case 0:
				return &Damage{Slot: slot, Kind: "bitflip", Off: drng.Intn(headerSize), Bit: drng.Intn(8)}
			case 1:
				return &Damage{Slot: slot, Kind: "tear_zero", Len: drng.Intn(headerSize)}
			}
			return &Damage{Slot: slot, Kind: "zeroed"}
		}
		dm := mk(0)
		dm.Slot2 = mk(1)
		dm.Kind2()
		eval(dm)
	}
	e.Res.Evals = max(evals, 1)
}

// Kind2 marks a double damage for the probes.
func (d *Damage) Kind2() {}

func applyDamage(img, prev []byte, ps int, dm *Damage) {
	base := dm.Slot * ps
	h := img[base : base+ps]
	switch dm.Kind {
	case "bitflip", "outside":
		if dm.Len >= 0 { // Len -1: no damage at all (both headers intact)
			h[dm.Off] ^= 1 << uint(dm.Bit)
		}
	case "tear_over_old":
		if len(prev) >= base+headerSize {
			copy(h[dm.Len:headerSize], prev[base+dm.Len:base+headerSize])
		}
	case "tear_zero":
		for i := dm.Len; i < headerSize; i++ {
			h[i] = 0
		}
	case "zeroed":
		for i := 0; i < headerSize; i++ {
			h[i] = 0
		}
	case "scribble", "field":
		copy(h[dm.Off:], dm.Bytes)
	case "copy_of_other":
		other := (1 - dm.Slot) * ps
		copy(h[:headerSize], img[other:other+headerSize])
	}
	if dm.Slot2 != nil {
		applyDamage(img, prev, ps, dm.Slot2)
	}
}

// c16BigFile: header handling must not depend on the file being small. The
// image is written to a real (sparse) file of 2-4 GiB with both headers
// damaged; Open (real osfs) must return an error. A loop that never ends is
// reported by the run monitor as a hang.
func c16BigFile(e *Env, img []byte, ps int, rng *simsched.Rand) {
	dir, err := os.MkdirTemp("", "verif-c16-")
	if err != nil {
		return // no temp space: skip the probe
	}
	defer os.RemoveAll(dir)
	path := filepath.Join(dir, "big.dat")
	work := append([]byte(nil), img...)
	work[80] ^= 0x01    // checksum of slot 0
	work[ps+83] ^= 0x80 // checksum of slot 1
	size := []int64{1<<31 + int64(ps) + 84, 1<<32 + 2*int64(ps), 3 << 30}[rng.Intn(3)]
	if os.WriteFile(path, work, 0o600) != nil || os.Truncate(path, size) != nil {
		return
	}
	e.Probe("big_sparse_file_both_damaged")
	var f *txfile.File
	if e.Guard("C16", fmt.Sprintf("Open of a %d byte file with both headers damaged", size), func() { f, err = txfile.Open(path, 0o600, txfile.Options{}) }) {
		return
	}
	if err == nil {
		f.Close()
		e.Fail("C16", "both-damaged-opened", "Open of a %d byte file succeeded although no header is intact", size)
	}
}
