package harness

import (
	"sort"
	"testing"
	"time"
)

// Shrink minimises a failing case: operations (per task), faults, and the
// schedule. A candidate is accepted only if the same violation class of the
// same property persists. The result is explicit and replays strictly.
func Shrink(t *testing.T, c *Case) *Case {
	want := violKey(c.Viol)
	p := registry[c.Prop]
	budget := 250
	deadline := time.Now().Add(45 * time.Second)
	try := func(cand *Case) *Case {
		if budget <= 0 || time.Now().After(deadline) {
			budget = 0
			return nil
		}
		budget--
		cc := cloneCase(cand)
		cc.Viol = nil
		res := RunCase(t, cc, false)
		if res.Viol != nil && violKey(res.Viol) == want {
			cc.Viol = res.Viol
			return cc
		}
		return nil
	}
	best := cloneCase(c)
	best.Explicit = true
	if p != nil && p.NoShrink {
		return finalize(t, best, want)
	}
	// confirm that the explicit form fails at all (with loose schedule)
	best.Loose = true
	if r := try(best); r != nil {
		best = r
		best.Loose = true
	} else {
		// fall back: keep the seed-only form
		c2 := &Case{Prop: c.Prop, Seed: c.Seed, Tier: c.Tier, Viol: c.Viol}
		return c2
	}

	// 1. ops: ddmin per task
	names := make([]string, 0, len(best.Tasks))
	for n := range best.Tasks {
		names = append(names, n)
	}
	sort.Strings(names)
	for _, name := range names {
		ops := best.Tasks[name]
		chunk := len(ops) / 2
		for chunk >= 1 && budget > 0 {
			removed := false
			for start := 0; start+chunk <= len(ops) && budget > 0; {
				cand := cloneCase(best)
				n := append(append([]Op(nil), ops[:start]...), ops[start+chunk:]...)
				cand.Tasks[name] = n
				cand.Schedule = nil // new ops: seed derived schedule
				r := try(cand)
				if r == nil {
					cand.Schedule = best.Schedule
					cand.Loose = true
					r = try(cand)
				}
				if r != nil {
					best = r
					best.Loose = true
					ops = best.Tasks[name]
					removed = true
				} else {
					start += chunk
				}
			}
			if !removed || chunk == 1 {
				chunk /= 2
			}
		}
	}
	// 2. faults
	for i := 0; i < len(best.Faults) && budget > 0; {
		cand := cloneCase(best)
		cand.Faults = append(append([]FaultT(nil), best.Faults[:i]...), best.Faults[i+1:]...)
		if r := try(cand); r != nil {
			best = r
			best.Loose = true
		} else {
			i++
		}
	}
	for i := range best.Faults {
		for best.Faults[i].Burst > 1 && budget > 0 {
			cand := cloneCase(best)
			cand.Faults[i].Burst--
			if r := try(cand); r != nil {
				best = r
				best.Loose = true
			} else {
				break
			}
		}
	}
	// 3. schedule: shortest prefix of recorded choices after which the default
	// policy (keep running the current task, else lowest name) still fails
	if len(best.Schedule) > 0 {
		lo, hi := 0, len(best.Schedule)
		for lo < hi && budget > 0 {
			mid := (lo + hi) / 2
			cand := cloneCase(best)
			cand.Schedule = append([]string(nil), best.Schedule[:mid]...)
			if len(cand.Schedule) == 0 {
				cand.Schedule = []string{}
			}
			cand.Loose = true
			if r := try(cand); r != nil {
				hi = mid
			} else {
				lo = mid + 1
			}
		}
		if hi < len(best.Schedule) {
			cand := cloneCase(best)
			cand.Schedule = append([]string{}, best.Schedule[:hi]...)
			cand.Loose = true
			if r := try(cand); r != nil {
				best = r
			}
		}
	}
	return finalize(t, best, want)
}

// finalize re-runs the case and stores the complete, strict schedule.
func finalize(t *testing.T, best *Case, want string) *Case {
	cc := cloneCase(best)
	cc.Viol = nil
	res := RunCase(t, cc, false)
	if res.Viol != nil && violKey(res.Viol) == want {
		cc.Viol = res.Viol
		cc.Loose = false // cc.Schedule now holds the complete recorded schedule
		cc.Explicit = true
		// verify strict replay
		chk := cloneCase(cc)
		chk.Viol = nil
		r2 := RunCase(t, chk, false)
		if r2.Viol != nil && violKey(r2.Viol) == want {
			return cc
		}
		cc.Loose = true
		return cc
	}
	return best
}

func cloneCase(c *Case) *Case {
	n := *c
	if c.Cfg != nil {
		cfg := *c.Cfg
		n.Cfg = &cfg
	}
	if c.Tasks != nil {
		n.Tasks = map[string][]Op{}
		for k, v := range c.Tasks {
			n.Tasks[k] = append([]Op(nil), v...)
		}
	}
	n.Faults = append([]FaultT(nil), c.Faults...)
	if c.Schedule != nil {
		n.Schedule = append([]string{}, c.Schedule...)
	}
	if c.Crash != nil {
		cr := *c.Crash
		cr.Keep = append([]int(nil), c.Crash.Keep...)
		n.Crash = &cr
	}
	if c.Viol != nil {
		v := *c.Viol
		n.Viol = &v
	}
	return &n
}
