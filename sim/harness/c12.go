package harness

import (
	"verifsim/simsched"
	"fmt"

	txfile "github.com/elastic/go-txfile"
)

func init() {
	probeNames["C12"] = []string{"queue_full_error", "flush_after_space_freed", "read_on_full_file", "ack_on_full_file", "cycle_completed", "drift_checked", "event_gt_half_file", "pq_reopen", "pq_reopen_with_new_max_size", "sustained_traffic_run", "auto_flush_observed"}
	register(&PropDef{
		ID: "C12", Level: "exploration", QuickSec: 50, ThoroSec: 900,
		Rule: "each run = fill/drain cycles on a small bounded simulated file (64-160 KiB, page size 1024-4096, write buffer min..16 pages): the producer writes events (sizes from 1 byte to more than half the file) until Write/Next/Flush report an error, the consumer reads and ACKs a drawn amount, repeated 3-40 cycles (up to 200 thorough), with reopen between some cycles; in a third of the runs some reopens give the (possibly full) file a new limit through FlagUpdMaxSize (grow by 16-64 KiB or shrink, also below the space in use; all content oracles stay on, the space oracles are off once the limit was reduced). Oracles: FIFO/byte-exact delivery over the whole run (C05 oracle; a Write that returned (0,err) appended nothing); reading and ACK succeed on the full file; after ACKs freed space a later Flush succeeds within 2 calls and the buffered events come out in order; space bound: data pages in use <= pages spanned by un-ACKed+buffered events + constant (root page + pages of the most recent event + 2), and no drift: with everything ACKed the number of pages in use after the first cycle equals the number after the last cycle. Non-trivial = run that hit the full-file error at least twice and recovered; distinct = op list + config + schedule hash.",
		Real: defaultReal, Stub: defaultStub, Assume: defaultAssume,
		Body: c12Body,
	})
}

func pagesSpanned(sizes []int, ps int) int {
	payload := ps - pqPageHeader
	tot := 0
	for _, s := range sizes {
		tot += s + pqEventHeader
	}
	return (tot+payload-1)/payload + 1
}

func c12Body(e *Env) {
	c := e.Case
	rng := e.Rng("c12")
	if c.Cfg == nil {
		cfg := DrawPQCfg(e.Rng("cfg"), true)
		cfg.NTx = 3 + rng.Intn(38)
		if c.Tier == "thorough" {
			cfg.NTx = 5 + rng.Intn(195)
		}
		c.Cfg = &cfg
	}
	if c.Cfg.Variant == 0 && !c.Explicit && rng.Intn(25) == 0 {
		// sustained traffic: the consumer keeps up, thousands of events pass
		// through a small file, automatic flushes only, no reopen
		c.Cfg.Variant = 3
		c.Cfg.PageSize = []int{1024, 2048}[rng.Intn(2)]
		c.Cfg.MaxSize = []int{64, 96, 128}[rng.Intn(3)] << 10
		c.Cfg.WriteBuf = []int{0, 8}[rng.Intn(2)] * c.Cfg.PageSize
		c.Cfg.NTx = 1500 + rng.Intn(1500)
		if c.Tier == "thorough" {
			c.Cfg.NTx = 3000 + rng.Intn(6000)
		}
	}
	cfg := *c.Cfg
	d := e.NewDisk("queue")
	p := NewPQ(e, d, cfg)
	p.Prop = "C12"
	p.BufMonitor = cfg.Variant == 3
	p.CheckCounters = rng.Intn(2) == 0 // C17 oracle on full files
	defer func() { c.Tasks = map[string][]Op{"main": p.Ops} }()
	if err := p.Open(); err != nil {
		e.Fail("C12", "open-failed", "creating file and queue failed: %+v", err)
		return
	}
	defer p.Close()
	ps := cfg.PageSize
	maxPages := cfg.MaxSize / ps
	resizes := 0
	dataInUse := func() int { return int(txfile.VerifFileStats(p.F).DataAllocated) }
	live := func() int { // data pages in use according to the allocator
		s := txfile.VerifAllocSnapshot(p.F)
		return int(s.DataEnd) - 2 - int(s.MetaTotal) - int(s.DataAvail) + overflowAdj(s)
	}
	_ = dataInUse
	shrunk := false
	checkSpace := func(when string) {
		if e.Failed() || shrunk {
			// after the limit was reduced below the space in use, pages past the
			// limit that the engine gave up (neither free nor in use) would be
			// counted as held by the queue: no space oracle from then on
			return
		}
		unacked := p.Sizes[p.acked:]
		lastSz := 0
		if len(p.Sizes) > 0 {
			lastSz = p.Sizes[len(p.Sizes)-1]
		}
		// the acker keeps the page in which the most recently ACKed event starts
		// (and everything behind it) until a later ACK: allow for that event too
		lastAcked := 0
		if p.acked > 0 {
			lastAcked = p.Sizes[p.acked-1]
		}
		constant := 1 + pagesSpanned([]int{lastSz}, ps) + pagesSpanned([]int{lastAcked}, ps) + 2
		bound := pagesSpanned(unacked, ps) + constant
		if len(unacked) == 0 {
			// everything ACKed: the bound is a constant independent of the traffic so far (no drift)
			e.Probe("drift_checked")
		}
		if got := live(); got > bound {
			sn := txfile.VerifAllocSnapshot(p.F)
			e.Fail("C12", "space-bound", "%s: %d data pages in use, bound is %d (pages spanned by %d un-ACKed events) + %d (constant); allocator: data end %d, meta end %d, meta area %d pages, %d free data pages, limit %d pages", when, got, pagesSpanned(unacked, ps), len(unacked), constant, sn.DataEnd, sn.MetaEnd, sn.MetaTotal, sn.DataAvail, p.Cfg.MaxSize/ps)
		}
	}
	explicit := c.Tasks != nil
	if explicit {
		for _, op := range c.Tasks["main"] {
			if e.Failed() {
				return
			}
			before := p.Cfg.MaxSize
			p.Apply(op)
			if p.Cfg.MaxSize < before {
				shrunk = true
			}
			if cfg.Variant == 3 && p.full && !e.Failed() {
				p.fail("spurious-full", "sustained traffic: the producer reports out of space although the consumer keeps up (%d events flushed, %d ACKed, file of %d pages)", p.cbFlushed, p.acked, maxPages)
			}
		}
		checkSpace("end of explicit history")
		return
	}
	if cfg.Variant == 3 {
		c12Sustained(e, p, rng, cfg.NTx)
		checkSpace("end of sustained traffic")
		e.Res.Sig = sigOfOps(p.Ops, uint64(ps), uint64(cfg.MaxSize), uint64(cfg.WriteBuf))
		e.Res.Nontrivial = true
		return
	}
	g := NewPQGen(p, e.Rng("ops"))
	g.MaxPagesPerEvent = max(2, maxPages/2)
	resizeRuns := rng.Intn(3) == 0
	fulls := 0
	firstEmptyUse := -1
	for cycle := 0; cycle < cfg.NTx && !e.Failed(); cycle++ {
		// --- fill until the file is full
		bigMix := rng.Intn(3) == 0
		for i := 0; i < 4000 && !p.full && !e.Failed(); i++ {
			n := g.evSize()
			if bigMix && rng.Intn(4) == 0 {
				n = (maxPages/2 + rng.Intn(maxPages/10+1)) * (ps - pqPageHeader)
				e.Probe("event_gt_half_file")
			}
			p.Apply(Op{K: "write", A: n, B: g.chunk(n)})
			if p.full {
				break
			}
			p.Apply(Op{K: "next"})
			if rng.Intn(6) == 0 && !p.full {
				p.Apply(Op{K: "flush"})
			}
			e.Yield("op")
		}
		if !p.full {
			p.Apply(Op{K: "flush"})
		}
		if p.full {
			fulls++
		}
		checkSpace(fmt.Sprintf("cycle %d, file full", cycle))
		// --- drain: reading and ACK must work on the full file
		target := p.rdIdx + 1 + rng.Intn(max(1, p.cbFlushed-p.rdIdx))
		if rng.Intn(3) == 0 {
			target = p.cbFlushed
		}
		p.Apply(Op{K: "rbegin"})
		for p.rdIdx < target && !e.Failed() {
			before := p.rdIdx
			p.Apply(Op{K: "rnext"})
			if p.rdIdx == before {
				break
			}
			for p.rdCur >= 0 && p.rdOff < p.Sizes[p.rdCur] && !e.Failed() {
				p.Apply(Op{K: "rread", A: 1 + rng.Intn(3*ps)})
			}
			if p.full {
				e.Probe("read_on_full_file")
			}
		}
		p.Apply(Op{K: "rdone"})
		for p.rdDone > p.acked && !e.Failed() {
			wasFull := p.full
			p.Apply(Op{K: "ack", A: rng.Intn(1 << 16)})
			if wasFull {
				e.Probe("ack_on_full_file")
			}
			if rng.Intn(3) == 0 {
				break
			}
		}
		checkSpace(fmt.Sprintf("cycle %d, after ACK", cycle))
		// --- bounded liveness: buffered events are flushed by a later call
		if p.full && p.acked > 0 && !e.Failed() {
			// enough space freed? require success only if everything delivered was ACKed
			snap := txfile.VerifAllocSnapshot(p.F)
			free := int(snap.DataAvail)
			if int(snap.DataEnd) < maxPages {
				free += maxPages - int(snap.DataEnd)
			}
			bufferedPages := pagesSpanned(p.Sizes[p.cbFlushed:], ps)
			// enough allocatable pages for the buffered events plus metadata growth
			if free >= bufferedPages+10 {
				ok := false
				for attempt := 0; attempt < 2 && !e.Failed(); attempt++ {
					p.Apply(Op{K: "flush"})
					if !p.full {
						ok = true
						break
					}
				}
				if !ok && !e.Failed() {
					e.Fail("C12", "not-live", "cycle %d: %d data pages are allocatable, but Flush of the buffered events (%d pages) still fails twice on a file of %d pages", cycle, free, bufferedPages, maxPages)
				} else if ok {
					e.Probe("flush_after_space_freed")
				}
			}
		}
		// --- drift: with everything ACKed the space in use does not depend on history
		if !e.Failed() && !shrunk && p.acked == p.completed() && p.acked == p.cbFlushed && p.completed() > 0 {
			use := live()
			lastSz := p.Sizes[len(p.Sizes)-1]
			limit := 1 + 2*pagesSpanned([]int{lastSz}, ps) + 2
			if use > limit {
				e.Fail("C12", "space-bound", "cycle %d: everything ACKed, still %d data pages in use (limit root + last event + 2 = %d)", cycle, use, limit)
			}
			if firstEmptyUse < 0 {
				firstEmptyUse = use
			}
			e.Probe("drift_checked")
		}
		if rng.Intn(8) == 0 && !e.Failed() && !p.full {
			p.Apply(Op{K: "reopen"})
		} else if resizeRuns && rng.Intn(5) == 0 && !e.Failed() {
			// the operator gives the (possibly full) queue file a new limit
			nm := p.Cfg.MaxSize + (1+rng.Intn(4))*(16<<10)
			if resizes%2 == 1 || rng.Intn(3) == 0 {
				nm = max(64<<10, p.Cfg.MaxSize-(1+rng.Intn(4))*(16<<10))
			}
			if rng.Intn(4) == 0 {
				nm += 100
			}
			before := p.Cfg.MaxSize
			if p.Apply(Op{K: "resize", A: nm}) {
				if p.Cfg.MaxSize < before {
					shrunk = true
				}
				resizes++
				maxPages = p.Cfg.MaxSize / ps
				g.MaxPagesPerEvent = max(2, maxPages/2)
			}
		}
		e.Probe("cycle_completed")
		e.Yield("op")
	}
	if !e.Failed() {
		// final: drain everything that can be drained
		if p.rdActive {
			p.Apply(Op{K: "rdone"})
		}
		p.Drain(-1)
		for p.rdDone > p.acked && !e.Failed() {
			p.Apply(Op{K: "ack", A: 1 << 20})
		}
		if !e.Failed() && p.full {
			for attempt := 0; attempt < 2; attempt++ {
				p.Apply(Op{K: "flush"})
			}
		}
		checkSpace("end of run, everything delivered has been ACKed")
	}
	e.Res.Sig = sigOfOps(p.Ops, uint64(ps), uint64(cfg.MaxSize), uint64(cfg.WriteBuf))
	e.Res.Nontrivial = fulls >= 2
}

func overflowAdj(s txfile.VerifAllocState) int { return 0 }

// c12Sustained: n events pass through a small file while the consumer keeps
// up. Event sizes mostly leave 1-3 unusable bytes at the end of a page. The
// producer never calls Flush; the file never gets full, so no producer call
// may fail, and the amount buffered at automatic flushes must not drift
// (PQ.BufMonitor).
func c12Sustained(e *Env, p *PQ, rng *simsched.Rand, n int) {
	ps := p.Cfg.PageSize
	payload := ps - pqPageHeader
	maxPages := p.Cfg.MaxSize / ps
	e.Probe("sustained_traffic_run")
	d := 1 + rng.Intn(3)
	drain := func() {
		p.Drain(-1)
		for p.rdDone > p.acked && !e.Failed() {
			p.Apply(Op{K: "ack", A: 1 << 20})
		}
	}
	for i := 0; i < n && !e.Failed(); i++ {
		sz := payload - pqEventHeader - d
		switch rng.Intn(10) {
		case 0:
			sz = 1 + rng.Intn(payload/2)
		case 1:
			sz = payload - pqEventHeader - (1 + rng.Intn(3))
		}
		p.Apply(Op{K: "write", A: sz, B: sz})
		p.Apply(Op{K: "next"})
		if p.full && !e.Failed() {
			p.fail("spurious-full", "sustained traffic, event %d: the producer reports out of space although the consumer keeps up (%d events flushed, %d ACKed, file of %d pages)", i, p.cbFlushed, p.acked, maxPages)
			return
		}
		// keep up: never more than a quarter of the file un-ACKed
		if (p.cbFlushed-p.acked)*2 >= maxPages/2 || rng.Intn(40) == 0 {
			drain()
		}
		e.Yield("op")
	}
	drain()
}
