package harness

import "fmt"

// pqWorkload runs a single-task queue history.
func pqWorkload(e *Env, bounded bool, nops int, setup func(p *PQ, g *PQGen)) *PQ {
	c := e.Case
	if c.Cfg == nil {
		cfg := DrawPQCfg(e.Rng("cfg"), bounded)
		c.Cfg = &cfg
	}
	d := e.NewDisk("queue")
	p := NewPQ(e, d, *c.Cfg)
	g := NewPQGen(p, e.Rng("ops"))
	if setup != nil {
		setup(p, g)
	}
	defer func() { c.Tasks = map[string][]Op{"main": p.Ops} }()
	if err := p.Open(); err != nil {
		e.Fail(p.Prop, "open-failed", "creating file and queue failed: %+v", err)
		return p
	}
	if c.Tasks != nil {
		for _, op := range c.Tasks["main"] {
			if e.Failed() {
				break
			}
			p.Apply(op)
			e.Yield("op")
		}
	} else {
		frng := e.Rng("pqfault")
		for i := 0; i < nops && !e.Failed(); i++ {
			op := g.Next()
			if p.FaultRuns && (op.K == "flush" || op.K == "next") && frng.Intn(5) == 0 {
				// one write error / short write inside this producer call: the call may
				// fail, the queue must stay consistent and later calls succeed
				p.Apply(Op{K: "faultarm", A: frng.Intn(2), B: frng.Intn(10)})
			}
			p.Apply(op)
			e.Yield("op")
		}
	}
	return p
}

// pqFinish flushes, drains and checks that everything appended was delivered.
func pqFinish(e *Env, p *PQ) {
	if e.Failed() || p.Q == nil {
		return
	}
	if p.rdActive {
		p.Apply(Op{K: "rdone"})
	}
	if p.curBytes > 0 {
		p.Apply(Op{K: "next"})
	}
	p.Apply(Op{K: "flush"})
	if p.full {
		return // file full: C12 territory
	}
	p.Drain(-1)
	p.checkAppData("end of history")
	if !e.Failed() && p.rdIdx != p.completed() {
		p.fail("missing-event", "after a final Flush the reader delivered events up to %d, %d events were appended", p.rdIdx, p.completed())
	}
}

func pqProbes(e *Env, p *PQ) {
	ps := p.Cfg.PageSize
	payload := ps - pqPageHeader
	off := 0 // offset inside payload stream is not tracked exactly; classify by size
	_ = off
	for _, sz := range p.Sizes {
		switch {
		case sz+pqEventHeader > 2*payload:
			e.Probe("event_ge3_pages")
		case sz+pqEventHeader > payload:
			e.Probe("event_multi_page")
		}
		if (sz+pqEventHeader)%payload == 0 {
			e.Probe("event_fills_page_exactly")
		}
		if r := (sz + pqEventHeader) % payload; r > payload-pqEventHeader {
			e.Probe("header_does_not_fit_at_page_end")
		}
		if sz == 1 {
			e.Probe("event_1_byte")
		}
	}
}

func init() {
	probeNames["C05"] = []string{"event_ge3_pages", "event_multi_page", "event_fills_page_exactly", "header_does_not_fit_at_page_end", "event_1_byte", "event_skipped", "pq_reopen", "io_fault_in_producer_call"}
	register(&PropDef{
		ID: "C05", Level: "exploration", QuickSec: 50, ThoroSec: 900,
		Rule: "each run = one seeded queue history (up to 400 operations: Write with arbitrary chunking incl. 1-byte chunks, Next, Flush, reader Begin/Next/Read(partial, exact, oversize buffers)/Done, ACK, queue+file reopen) with boundary-biased event sizes (1 byte; payload-4-d and payload-d for d in 0..6; k*payload-4-d; multi page) on page sizes 1024-4096 and write buffers from the minimum to 16 pages; half of the queue configurations set a statistics Observer, 1 in 16 starts the new queue at an event id just below 2^63, 2^64 or 2^32; in a fifth of the runs one write error or short write is armed for single Flush/Next calls (the call may fail, the events stay buffered and are delivered after a later flush). Oracle: the i-th event delivered by the reader is the i-th appended event (exact size from Next, byte-identical concatenated Reads, Read returns 0 exactly at the end), nothing is delivered that was not completed, Next reports empty only if nothing certainly-flushed is undelivered; at the end Flush + drain must deliver every appended event. Non-trivial = run with at least one multi-page event and one event read in several pieces; distinct = op list + config + schedule hash.",
		Real: defaultReal, Stub: defaultStub, Assume: defaultAssume,
		FaultKinds: []string{"write error inside Flush/Next (one call, a fifth of the runs)", "short write inside Flush/Next"},
		Body: func(e *Env) {
			rng := e.Rng("c05")
			n := 60 + rng.Intn(340)
			faults := rng.Intn(5) == 0
			p := pqWorkload(e, false, n, func(p *PQ, g *PQGen) { p.FaultRuns = faults })
			pqFinish(e, p)
			pqProbes(e, p)
			p.Close()
			e.Res.Sig = sigOfOps(p.Ops, uint64(p.Cfg.PageSize), uint64(p.Cfg.WriteBuf))
			e.Res.Nontrivial = e.Res.Probes["event_multi_page"]+e.Res.Probes["event_ge3_pages"] > 0
		},
	})
	probeNames["C17"] = []string{"counters_checked", "available_checked", "pq_reopen", "event_skipped", "io_fault_in_producer_call"}
	register(&PropDef{
		ID: "C17", Level: "exploration", QuickSec: 50, ThoroSec: 900,
		Rule: "each run = one seeded queue history as in C05 (producer, consumer, ACK, reopen; a third on small bounded files where flushes fail from out of space, a quarter with a write error or short write armed for single Flush/Next calls); after EVERY operation the counter oracle runs: Flushed callback total F within [events flushed for sure, events completed] and == completed after a successful explicit Flush; ACKed callback total A == sum of successful ACK(n); Pending() == Active() == F - A; inside a reader transaction Available() == F - consumed; after queue+file reopen Pending == Active == persisted range and a new reader's Available equals it; the FIFO oracle of C05 ties the counters to what the reader can actually deliver. Non-trivial = run with at least one ACK and one reopen or partially ACKed page; distinct = op list + config + schedule hash.",
		Real: defaultReal, Stub: defaultStub, Assume: defaultAssume,
		FaultKinds: []string{"write error inside Flush/Next (one call, a quarter of the runs)", "short write inside Flush/Next", "out of space (small bounded files)"},
		Body: func(e *Env) {
			rng := e.Rng("c17")
			n := 40 + rng.Intn(260)
			small := rng.Intn(3) == 0 // small bounded file: flushes fail when the file is full
			faults := rng.Intn(4) == 0
			p := pqWorkload(e, small, n, func(p *PQ, g *PQGen) {
				p.CheckCounters = true
				p.FaultRuns = faults
				g.WAck, g.WReopen, g.WFlush = 14, 3, 10
				if small {
					g.WAck, g.WRead = 4, 20 // fill faster than it is drained
				}
			})
			pqFinish(e, p)
			if !e.Failed() && p.Q != nil {
				p.Reopen()
				if !e.Failed() {
					p.checkCounters("after final reopen")
					p.Apply(Op{K: "rbegin"})
					p.Apply(Op{K: "rdone"})
				}
			}
			p.Close()
			e.Res.Sig = sigOfOps(p.Ops, uint64(p.Cfg.PageSize), uint64(p.Cfg.WriteBuf))
			e.Res.Nontrivial = p.acked > 0
			_ = fmt.Sprint
		},
	})
}
