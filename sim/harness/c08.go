package harness

import (
	"fmt"

	txfile "github.com/elastic/go-txfile"

	"verifsim/simdisk"
	"verifsim/simsched"
)

func init() {
	probeNames["C08"] = []string{"fault_in_commit", "fault_in_data_write", "fault_in_header_write", "fault_in_first_sync", "fault_in_final_sync", "fault_outside_commit", "fault_during_open", "commit_failed", "commit_ok", "liveness_checked", "liveness_second_attempt", "durability_checked", "final_state_is_later_attempt", "short_write", "burst_spans_transactions", "reopen_with_maxsize_update", "shrink_release_under_fault", "grow_prealloc_under_fault", "stale_flush_write_failed_late", "reopen_right_after_failed_commit", "abort_state_compared", "reopen_alloc_state_compared"}
	register(&PropDef{
		ID: "C08", Level: "fault_enumeration", QuickSec: 55, ThoroSec: 1200,
		Rule: "each run = one seeded txops history (<=10 transactions, incl. reopen) with a fault plan aimed at the I/O calls a fault-free dry run of the same seed performs: kind in {write error before effect, short write then error, sync error, truncate error, size error, mmap error, read error at open} x call index x burst in {1,2,3,until end of transaction}; a fault-free configuration of every seed runs first with the strict oracle. Reopens may change the limit (grow, shrink); two targeted scenarios aim one fault at the open-time steps of a shrinking open (release transaction) and of a growing open with Prealloc (header transaction, truncate, remap); a sixth of the runs use SyncNone (no durability oracle there); a third of the failed commits are followed by close+reopen at once. Oracles: no panic, no hang (scheduler deadlock detection), after every transaction a fresh read transaction sees exactly the last successfully committed model state, a commit that reported success is durable (durable-only image reopens to it), a commit during which one of its writes/syncs failed does not report success, a commit whose failure was not its final sync has not written a complete new header, once faults stopped a write transaction commits within 2 attempts (the first may fail only if a write or sync failed outside a commit since the last commit attempt, or a write queued by a Flush of a rolled back transaction failed and no commit has succeeded since), after a clean close and plain reopen the allocation state read from the file equals the one the closed File had in memory, a transaction that ended without a successful commit leaves the allocation state as it was at its begin, and after clean close+reopen the state is the last committed one or the complete state of a later attempt whose header write was issued. Non-trivial = at least one fault actually fired inside a transaction or an open; distinct = op list + fault plan + config + schedule hash.",
		Real: defaultReal, Stub: defaultStub, Assume: defaultAssume,
		FaultKinds: []string{"write_err", "write_short", "sync_err", "truncate_err", "size_err", "mmap_err", "read_err", "unlock_err"},
		Body: c08Body,
	})
}

// runPlain executes a generated or explicit single-task history on r.
func runHistory(e *Env, r *Runner, g *Gen, explicit []Op, ntx int, guardProp string, between func(op Op)) {
	apply := func(op Op) bool {
		ok := false
		if e.Guard(guardProp, fmt.Sprintf("operation %v", op), func() { ok = r.Apply(op) }) {
			return false
		}
		return ok
	}
	if explicit != nil {
		for _, op := range explicit {
			if e.Failed() {
				return
			}
			if apply(op) && between != nil {
				between(op)
			}
			e.Yield("op")
		}
		return
	}
	ended := 0
	for ended < ntx && !e.Failed() {
		op := g.Next()
		if apply(op) {
			switch op.K {
			case "commit", "rollback", "closetx":
				ended++
			}
			if between != nil {
				between(op)
			}
		}
		e.Yield("op")
	}
}

func drawFaults(rng *simsched.Rand, calls [8]int) []simdisk.Fault {
	n := 1 + rng.Intn(2)
	var fs []simdisk.Fault
	for i := 0; i < n; i++ {
		kind := []simdisk.FaultKind{simdisk.FWriteErr, simdisk.FWriteErr, simdisk.FWriteShort, simdisk.FSyncErr, simdisk.FSyncErr, simdisk.FSyncErr, simdisk.FTruncErr, simdisk.FSizeErr, simdisk.FMMapErr, simdisk.FUnlockErr}[rng.Intn(10)]
		cls := map[simdisk.FaultKind]int{simdisk.FWriteErr: 0, simdisk.FWriteShort: 0, simdisk.FSyncErr: 1, simdisk.FTruncErr: 2, simdisk.FSizeErr: 3, simdisk.FMMapErr: 4, simdisk.FUnlockErr: 7}[kind]
		cnt := calls[cls]
		if cnt == 0 {
			cnt = 2
		}
		f := simdisk.Fault{Kind: kind, Nth: rng.Intn(cnt), Burst: []int{1, 1, 1, 2, 3, 1000}[rng.Intn(6)]}
		fs = append(fs, f)
	}
	return fs
}

func c08Body(e *Env) {
	c := e.Case
	rng := e.Rng("c08")
	if c.Cfg == nil {
		cfg := DrawCfg(e.Rng("cfg"), 0)
		cfg.NTx = 2 + rng.Intn(9)
		cfg.Variant = rng.Intn(4) // 0: open-time faults too
		if rng.Intn(6) == 0 {
			cfg.SyncMode = 3 // SyncNone: no fsync at all; every oracle but durability applies
		}
		c.Cfg = &cfg
	}
	if c.Tasks == nil && c.Cfg.Variant == 3 && rng.Intn(2) == 0 {
		// targeted scenario: a shrinking open whose release transaction (free tail
		// region straddling the new limit) is hit by an I/O fault, then more work
		c.Cfg.Variant = 7
		c.Cfg.PageSize = 1024
		c.Cfg.MaxSize = []int{128, 192, 256}[rng.Intn(3)] << 10
		c.Cfg.InitMeta = []int{0, 4}[rng.Intn(2)]
		c.Cfg.Prealloc = false
		maxPages := c.Cfg.MaxSize / 1024
		used := maxPages*3/4 + rng.Intn(maxPages/8)
		tail := used - maxPages/2 + 2 + rng.Intn(maxPages/8)
		ops := []Op{{K: "begin"}}
		for left := used; left > 0; left -= 60 {
			ops = append(ops, Op{K: "allocn", A: min(left, 60)})
		}
		ops = append(ops, Op{K: "setfull", A: 0}, Op{K: "setfull", A: 1}, Op{K: "commit"}, Op{K: "begin"}, Op{K: "freetail", A: tail}, Op{K: "commit"}, Op{K: "reopen"})
		for i := 0; i < 3; i++ {
			ops = append(ops, Op{K: "begin"}, Op{K: "allocn", A: 10 + rng.Intn(30)}, Op{K: "setfull", A: rng.Intn(1 << 16)}, Op{K: "commit"})
		}
		ops = append(ops, Op{K: "reopen"}, Op{K: "begin"}, Op{K: "allocn", A: 5}, Op{K: "commit"})
		c.Tasks = map[string][]Op{"main": ops}
		c.Faults = []simdisk.Fault{} // armed at the reopen, see below
	}
	if c.Tasks == nil && c.Cfg.Variant == 2 && c.Cfg.MaxSize > 0 && rng.Intn(3) == 0 {
		// targeted scenario: an open that raises the limit with Prealloc (header
		// transaction, truncate, remap) is hit by an I/O fault of any kind
		c.Cfg.Variant = 8
		c.Cfg.NTx = 2 + rng.Intn(4)
		c.Faults = []simdisk.Fault{} // armed at the reopen, see below
	}
	cfg := *c.Cfg
	var explicit []Op
	if c.Tasks != nil {
		explicit = c.Tasks["main"]
		if explicit == nil {
			explicit = []Op{}
		}
	}

	// 1. fault-free dry run with the strict oracle
	var calls [8]int
	if c.Faults == nil && !c.Explicit && c.Cfg.Variant != 7 && c.Cfg.Variant != 8 {
		d0 := e.NewDisk("dry")
		r0 := NewRunner(e, d0, cfg)
		if err := r0.Open(); err != nil {
			e.Fail("C08", "open-failed", "creating the file failed: %v", err)
			return
		}
		d0.SetFaults([]simdisk.Fault{{Kind: simdisk.FReadErr, Nth: 1 << 30, Burst: 1}}) // arm counters only
		g0 := NewGen(r0, e.Rng("ops"), cfg.Mix)
		runHistory(e, r0, g0, explicit, cfg.NTx, "C03", nil)
		if e.Failed() {
			return
		}
		if r0.InTx() {
			r0.Apply(Op{K: "rollback"})
		}
		calls = d0.Calls()
		r0.Close()
		c.Faults = drawFaults(e.Rng("faults"), calls)
	}
	if e.Failed() {
		return
	}

	// 2. the same history with faults
	d := e.NewDisk("file")
	r := NewRunner(e, d, cfg)
	r.Faulty = true
	r.AsProp = "C08"
	if err := r.Open(); err != nil {
		e.Fail("C08", "open-failed", "creating the file failed: %v", err)
		return
	}
	defer func() { c.Tasks = map[string][]Op{"main": r.Ops} }()
	firedTotal := func() int {
		n := 0
		for _, k := range d.Fired {
			n += k
		}
		return n
	}
	var laterAttempts []*State // attempted states of failed commits whose header write was issued, since the last successful commit
	firedAtBegin := 0
	lastCommitEnd := 0 // op-log index at which the most recent commit attempt returned
	staleFlushSince := -1 // op-log index since which writes of a rolled back Flush may be queued
	txFlushed, txFlushStart := false, 0
	var sumAtBegin allocSummary
	haveSum := false
	r.OnCommitResult = func(rec *CommitRec, err error) {
		defer func() { lastCommitEnd = len(d.Log) }()
		firedIn := 0
		hdrWritten := false
		failedBesidesFinalSync := "" // a failed call of this commit other than a sync issued after the header write
		var firstSyncSeen bool
		for i := rec.Begin; i < len(d.Log); i++ {
			op := &d.Log[i]
			if op.Err && (op.Kind == simdisk.OpWrite || op.Kind == simdisk.OpSync) {
				firedIn++
				if op.Kind == simdisk.OpWrite || !hdrWritten {
					failedBesidesFinalSync = fmt.Sprintf("%v at offset %d (I/O #%d)", op.Kind, op.Off, i)
				}
				switch {
				case op.Kind == simdisk.OpWrite && isHeaderWriteOff(op, cfg.PageSize):
					e.Probe("fault_in_header_write")
				case op.Kind == simdisk.OpWrite:
					e.Probe("fault_in_data_write")
				case op.Kind == simdisk.OpSync && !hdrWritten:
					e.Probe("fault_in_first_sync")
				default:
					e.Probe("fault_in_final_sync")
				}
			}
			if op.Kind == simdisk.OpSync {
				firstSyncSeen = true
			}
			if op.Kind == simdisk.OpWrite && !op.Err && isHeaderWrite(op, cfg.PageSize) {
				hdrWritten = true
			}
		}
		_ = firstSyncSeen
		if err != nil && r.F != nil {
			// the commit reported failure: the in-memory state must still be the previous one
			if h := txfile.VerifHeaderSnapshot(r.F); h.Active != r.TxActiveSlot {
				call := "?"
				for i := len(d.Log) - 1; i >= rec.Begin; i-- {
					if d.Log[i].Err {
						call = d.Log[i].Kind.String()
						break
					}
				}
				e.Fail("C08", "commit-error-after-switch", "Commit #%d returned an error after the File had already switched to the new transaction (active header slot %d): failing call: %s during the post-switch remap/truncate; error: %v", rec.State.N, h.Active, call, err)
				return
			}
		}
		if firedIn > 0 {
			e.Probe("fault_in_commit")
			e.Res.Nontrivial = true
			if err == nil {
				e.Fail("C08", "swallowed-error", "Commit #%d returned success although %d of its write/sync calls failed", rec.State.N, firedIn)
				return
			}
		}
		if err == nil && cfg.SyncMode == 3 {
			// SyncNone: nothing is ever synced, durability is not promised
			laterAttempts = nil
		} else if err == nil {
			laterAttempts = nil
			// durability: everything lost except what was synced
			img := simdisk.DurableImage(d.Log, nil)
			evalRecovered(e, "C08", r.Cfg, img, rec.State, nil, false, 0, fmt.Sprintf("durable content after Commit #%d returned success", rec.State.N))
			e.Probe("durability_checked")
		} else if hdrWritten && failedBesidesFinalSync != "" && staleFlushSince < 0 {
			// the header of a commit is the last thing written: everything before it
			// must have been written (and synced) successfully
			e.Fail("C08", "header-written-by-failed-commit", "Commit #%d failed (%s failed) but its complete new header was written to the file: after a restart the file shows a transaction that was never completely written", rec.State.N, failedBesidesFinalSync)
			return
		} else if hdrWritten {
			laterAttempts = append(laterAttempts, rec.State)
		}
	}
	live := func(when string) {
		// bounded liveness: with no fault left, a write transaction commits within 2 attempts
		if e.Failed() || r.F == nil || r.InTx() || d.FaultsPending() {
			return
		}
		// A deferred error is only legitimate if a write/sync failed OUTSIDE of a
		// commit since the last commit attempt ended (asynchronous write of a
		// Flush whose transaction was rolled back): every commit attempt, failed
		// or not, ends with a sync that resets the writer's error state.
		deferredPlausible := false
		for i := lastCommitEnd; i < len(d.Log); i++ {
			op := &d.Log[i]
			if op.Err && (op.Kind == simdisk.OpWrite || op.Kind == simdisk.OpSync) {
				deferredPlausible = true
			}
		}
		// Writes queued by Tx.Flush/Page.Flush of a transaction that was rolled back
		// stay in the writer's queue and may be executed (and fail) much later, also
		// while a later commit attempt is running that fails early for another
		// reason and has no failed write of its own to wait for: that attempt does
		// not reset the writer's error. Such a failed write is outstanding until a
		// commit succeeds.
		if staleFlushSince >= 0 {
			for i := staleFlushSince; i < len(d.Log); i++ {
				if op := &d.Log[i]; op.Err && op.Kind == simdisk.OpWrite {
					deferredPlausible = true
					e.Probe("stale_flush_write_failed_late")
				}
			}
		}
		lastCommitEndBefore := lastCommitEnd
		for attempt := 1; attempt <= 2; attempt++ {
			var err error
			var tx *txfile.Tx
			if e.Guard("C08", "liveness transaction", func() {
				tx, err = r.F.Begin()
				if err == nil {
					tx.SetRoot(r.Cur().Root)
					mk := r.D.Marker("liveness-commit")
					err = tx.Commit()
					_ = mk
				}
			}) {
				return
			}
			if err == nil {
				lastCommitEnd = len(d.Log)
				staleFlushSince = -1
				e.Probe("liveness_checked")
				if attempt == 2 {
					e.Probe("liveness_second_attempt")
				}
				laterAttempts = nil
				r.Cur().TxID = txfile.VerifHeaderSnapshot(r.F).TxID
				r.VerifyAll(when + ": after liveness transaction")
				return
			}
			lastCommitEnd = len(d.Log)
			if attempt == 1 && !deferredPlausible {
				var errs []string
				for i := range d.Log {
					if op := &d.Log[i]; op.Err {
						errs = append(errs, fmt.Sprintf("#%d %v off=%d", i, op.Kind, op.Off))
					}
				}
				e.Fail("C08", "not-live", "%s: all faults stopped and no asynchronous write error is outstanding, but an empty write transaction failed to commit: %+v (failed I/O calls so far: %v; last commit attempt ended at I/O #%d)", when, err, errs, lastCommitEndBefore)
				return
			}
			if attempt == 2 {
				e.Fail("C08", "not-live", "%s: all faults stopped, but an empty write transaction failed to commit twice: %v", when, err)
			}
		}
	}
	// reopen under faults: close, open (may fail while faults are active: retry
	// without faults), then the file shows the last committed state or the
	// complete state of a later attempt whose header write was issued
	reopenRng := e.Rng("c08reopen")
	immRng := e.Rng("c08immediate")
	shrunk := false
	reopen := func(final bool) {
		var err error
		// what the running File believes to be on disk (compared after the reopen)
		var memSum allocSummary
		haveMem := false
		if r.F != nil && len(laterAttempts) == 0 && !d.FaultsPending() {
			e.Guard("C08", "allocator snapshot before Close", func() { memSum, haveMem = summarize(r.F), true })
		}
		e.Guard("C08", "File.Close", func() { err = r.E.CloseFile(r.F) })
		r.F = nil
		if e.Failed() {
			return
		}
		if d.Locked() {
			// an injected Unlock failure left the (simulated) path lock behind;
			// the lock of a real file goes away with the file descriptor
			d.ForceUnlock()
		}
		if err != nil && !d.FaultsPending() && final {
			e.Fail("C08", "close-error", "File.Close failed after all faults stopped: %v", err)
			return
		}
		class := "reopen"
		what := "close and reopen"
		if len(laterAttempts) > 0 {
			class = "reopen-after-failed-final-sync"
			what = fmt.Sprintf("close and reopen after %d commit attempt(s) that failed after their header write had reached the file (no successful commit since)", len(laterAttempts))
		}
		// some reopens also change the maximum size (internal transactions at open time)
		opts := r.Options()
		newMax := 0
		if cfg.Variant == 7 && !shrunk {
			shrunk = true
			newMax = r.Cfg.MaxSize / 2
			opts.Flags |= txfile.FlagUpdMaxSize
			opts.MaxSize = uint64(newMax)
			opts.InitMetaArea = 0
			what += fmt.Sprintf(" with FlagUpdMaxSize (max size %d -> %d) and a fault aimed at the open-time transactions", r.Cfg.MaxSize, newMax)
			e.Probe("shrink_release_under_fault")
			if len(c.Faults) == 0 {
				k := []simdisk.FaultKind{simdisk.FWriteErr, simdisk.FWriteShort, simdisk.FSyncErr}[reopenRng.Intn(3)]
				c.Faults = []simdisk.Fault{{Kind: k, Nth: reopenRng.Intn(6), Burst: 1}}
			}
			d.SetFaults(c.Faults)
		} else if cfg.Variant == 8 && !shrunk && r.Cfg.MaxSize > 0 {
			shrunk = true
			newMax = r.Cfg.MaxSize + (1+reopenRng.Intn(8))*8<<10
			opts.Flags |= txfile.FlagUpdMaxSize
			opts.MaxSize = uint64(newMax)
			opts.InitMetaArea = 0
			opts.Prealloc = true
			what += fmt.Sprintf(" with FlagUpdMaxSize (max size %d -> %d), Prealloc and a fault aimed at the open-time steps", r.Cfg.MaxSize, newMax)
			e.Probe("grow_prealloc_under_fault")
			if len(c.Faults) == 0 {
				k := []simdisk.FaultKind{simdisk.FMMapErr, simdisk.FMMapErr, simdisk.FTruncErr, simdisk.FSizeErr, simdisk.FWriteErr, simdisk.FSyncErr, simdisk.FMUnmapErr}[reopenRng.Intn(7)]
				c.Faults = []simdisk.Fault{{Kind: k, Nth: reopenRng.Intn(4), Burst: 1}}
			}
			d.SetFaults(c.Faults)
		} else if r.Cfg.MaxSize > 0 && reopenRng.Intn(5) == 0 {
			newMax = r.Cfg.MaxSize + 64<<10
			if reopenRng.Intn(2) == 0 && r.Cfg.MaxSize >= 128<<10 {
				newMax = r.Cfg.MaxSize / 2 / r.Cfg.PageSize * r.Cfg.PageSize // shrink: runs the release transaction
			}
			opts.Flags |= txfile.FlagUpdMaxSize
			opts.MaxSize = uint64(newMax)
			opts.InitMetaArea = 0
			what += fmt.Sprintf(" with FlagUpdMaxSize (max size %d -> %d)", r.Cfg.MaxSize, newMax)
			e.Probe("reopen_with_maxsize_update")
		}
		open := func() (err error, panicked bool) {
			defer func() {
				if p := recover(); p != nil {
					panicked = true
					err = fmt.Errorf("panic: %v at %s", p, shortStack())
				}
			}()
			return r.OpenRawWith(opts), false
		}
		firedBefore := firedTotal()
		err, panicked := open()
		if err != nil && !panicked && firedTotal() > firedBefore {
			e.Probe("fault_during_open")
			e.Res.Nontrivial = true
			d.ClearFaults()
			err, panicked = open()
		}
		if err != nil {
			e.Fail("C08", class, "%s: Open fails: %v", what, err)
			return
		}
		tx, berr := r.F.BeginReadonly()
		if berr != nil {
			e.Fail("C08", class, "%s: BeginReadonly failed: %v", what, berr)
			return
		}
		// the header transaction id tells which state the file claims to hold
		hdr := txfile.VerifHeaderSnapshot(r.F)
		exp := r.Cur()
		switch {
		case hdr.TxID == r.Cur().TxID:
		case newMax > 0 && len(laterAttempts) == 0 && hdr.TxID-r.Cur().TxID <= 4:
			// the size-changing open ran header-only transactions (possibly twice after
			// a failed first attempt): contents must be unchanged
			exp = r.Cur().clone()
			exp.TxID = hdr.TxID
		case len(laterAttempts) > 0 && hdr.TxID == r.Cur().TxID+1:
			exp = laterAttempts[len(laterAttempts)-1].clone()
			exp.TxID = hdr.TxID
			e.Probe("final_state_is_later_attempt")
		default:
			e.Fail("C08", class, "%s: header txid is %d, last committed txid is %d (%d later attempts with header written)", what, hdr.TxID, r.Cur().TxID, len(laterAttempts))
			tx.Close()
			return
		}
		var msg string
		mp := e.Guard("C08", "reading the state after reopen", func() { msg = VerifyState(tx, exp) })
		if mp {
			e.viol.Class = class
			return
		}
		if msg != "" {
			e.Fail("C08", class, "%s: the file claims state #%d (txid %d) but does not hold it completely: %s", what, exp.N, hdr.TxID, msg)
		} else if exp != r.Cur() {
			if exp.N == r.Cur().N {
				r.Cur().TxID = exp.TxID
			} else {
				r.Hist = append(r.Hist, exp)
			}
		}
		tx.Close()
		if newMax > 0 {
			r.Cfg.MaxSize = newMax
			r.Cfg.InitMeta = 0 // creation-time option; Options.Validate would reject it for a small new limit
			r.CheckLocksIdle(what)
		}
		laterAttempts = nil
		if !e.Failed() {
			r.CheckPartition()
			if e.Failed() {
				e.viol.Class = class + "-partition"
			}
		}
		// a clean close and a plain reopen (no fault in between, no limit change)
		// must find on disk exactly the allocation state the File had in memory
		if haveMem && newMax == 0 && class == "reopen" && firedTotal() == firedBefore && !e.Failed() {
			if df := summarize(r.F).diff(memSum); df != "" {
				e.Fail("C08", "reopen-alloc-mismatch", "%s: the allocation state read from the file differs from what the closed File had in memory: %s (file vs memory): an earlier transaction reported success without having written its free list / mapping completely", what, df)
				return
			}
			e.Probe("reopen_alloc_state_compared")
		}
	}
	r.ReopenFn = func() { reopen(false) }

	if cfg.Variant != 7 && cfg.Variant != 8 { // variants 7 and 8 arm their fault at the size-changing reopen
		d.SetFaults(c.Faults)
	}
	g := NewGen(r, e.Rng("ops"), cfg.Mix)
	if cfg.Variant == 8 {
		g.M.Reopen = 50 // the targeted reopen comes early
	}
	burstSpan := 0
	runHistory(e, r, g, explicit, cfg.NTx, "C08", func(op Op) {
		switch op.K {
		case "begin":
			firedAtBegin = firedTotal()
			txFlushed, txFlushStart = false, len(d.Log)
			if r.F != nil {
				sumAtBegin, haveSum = summarize(r.F), true
			}
		case "pflush", "txflush":
			txFlushed = true
		case "commit", "rollback", "closetx":
			if haveSum && r.LastEnd != "commit-ok" && r.F != nil && !e.Failed() {
				// a transaction that ended without a successful commit, whatever
				// failed inside it, leaves the allocator as it was at its begin
				if df := summarize(r.F).diff(sumAtBegin); df != "" {
					e.Fail("C08", "abort-left-trace", "transaction ended by %s (%d I/O faults fired in it): the allocation state is not the one from before the transaction: %s (after vs before)", r.LastEnd, firedTotal()-firedAtBegin, df)
					return
				}
				e.Probe("abort_state_compared")
			}
			haveSum = false
			if r.LastEnd == "commit-ok" {
				staleFlushSince = -1
			} else if txFlushed && op.K != "commit" && staleFlushSince < 0 {
				staleFlushSince = txFlushStart
			}
			if firedTotal() > firedAtBegin {
				e.Res.Nontrivial = true
				burstSpan++
				if burstSpan > 1 {
					e.Probe("burst_spans_transactions")
				}
				if op.K != "commit" {
					e.Probe("fault_outside_commit")
				}
			}
			// "until end of transaction" bursts
			for _, f := range c.Faults {
				if f.Burst >= 1000 && firedTotal() > 0 {
					d.ClearFaults()
				}
			}
			// sometimes the process stops right after a failed commit: close and
			// reopen before any later commit could overwrite what the failed one left
			if op.K == "commit" && r.LastEnd == "commit-failed" && firedTotal() > firedAtBegin && !d.FaultsPending() && immRng.Intn(3) == 0 && !e.Failed() {
				e.Probe("reopen_right_after_failed_commit")
				reopen(false)
			}
			live("after transaction")
		case "reopen":
			if firedTotal() > firedAtBegin {
				e.Probe("fault_during_open")
				e.Res.Nontrivial = true
			}
		}
	})
	if d.Fired[simdisk.FWriteShort] > 0 {
		e.Probe("short_write")
	}
	if e.Failed() {
		return
	}
	if r.InTx() {
		e.Guard("C08", "rollback", func() { r.Apply(Op{K: "rollback"}) })
	}
	// 3. faults stop; the file must be usable, then close and reopen
	d.ClearFaults()
	if r.F == nil {
		// a reopen failed while faults were active: opening must work now
		if err := r.Open(); err != nil {
			e.Fail("C08", "reopen-error", "all faults stopped, but the file can not be opened: %v", err)
			return
		}
		r.VerifyAll("after faults stopped and the file was opened again")
	}
	live("end of history")
	if e.Failed() {
		return
	}
	reopen(true)
	if !e.Failed() && r.F != nil {
		live("after final reopen")
	}
	if r.F != nil {
		r.E.CloseFile(r.F)
		r.F = nil
	}
	h := sigOf(r, uint64(cfg.PageSize), uint64(cfg.MaxSize))
	for _, f := range c.Faults {
		h = simsched.Mix(h, uint64(f.Kind), uint64(f.Nth), uint64(f.Burst))
	}
	e.Res.Sig = h
}

func isHeaderWriteOff(op *simdisk.Op, pageSize int) bool {
	return op.Off == 0 || op.Off == int64(pageSize)
}
