package harness

import (
	"fmt"
	"time"

	"github.com/anishathalye/porcupine"
)

type pqHistIn struct {
	Kind string // publish | begin | next | ack
	N    int
}

type pqHistOut struct {
	Idx int // next: delivered event index, -1 = empty
}

type pqLinState struct {
	Flushed, Snap, Consumed, Acked int
}

var pqLinModel = porcupine.Model{
	Init: func() interface{} { return pqLinState{} },
	Step: func(state, input, output interface{}) (bool, interface{}) {
		s := state.(pqLinState)
		in := input.(pqHistIn)
		out := output.(pqHistOut)
		switch in.Kind {
		case "publish":
			s.Flushed += in.N
			return true, s
		case "begin":
			s.Snap = s.Flushed
			return true, s
		case "next":
			if out.Idx < 0 {
				return s.Consumed == s.Snap, s
			}
			if out.Idx != s.Consumed || s.Consumed >= s.Snap {
				return false, s
			}
			s.Consumed++
			return true, s
		case "ack":
			if s.Acked+in.N > s.Consumed {
				return false, s
			}
			s.Acked += in.N
			return true, s
		}
		return false, s
	},
	Equal: func(a, b interface{}) bool { return a.(pqLinState) == b.(pqLinState) },
	DescribeOperation: func(input, output interface{}) string {
		return fmt.Sprintf("%v -> %v", input, output)
	},
}

func init() {
	probeNames["C13"] = []string{"switch_inside_queue_op", "publish_during_reader_tx", "flush_committed_during_ack", "consumer_empty_poll", "lin_checked", "pq_reopen", "begin_with_active_tx", "event_multi_page"}
	register(&PropDef{
		ID: "C13", Level: "exploration", QuickSec: 55, ThoroSec: 1200,
		Rule: "each run = a producer task (Write/Next/Flush loop, <=40 events) and a consumer task (Begin/Next/Read/Done/ACK loop) on one queue plus the File's writer goroutine; the PRNG scheduler interleaves at every txfile hook (begin, all commit phases, tx close), every simulated disk call and between API calls, in particular between the acker's read transaction and its cleanup transaction. Oracles: consumer-side FIFO/byte-exact oracle of C05 with the reader-snapshot visibility bound; ACK only of completely read events succeeds; no deadlock (scheduler) ; the recorded history {publish(k) per producer call, reader begin, next->event i|empty, ack(n)} stamped with global event sequence numbers is checked with porcupine against the sequential model (flushed, snapshot, consumed, acked); after the run drain+reopen must redeliver exactly the un-ACKed suffix. Non-trivial = run with a context switch between producer and consumer inside a queue operation; distinct = hash of the (task, yield point) sequence.",
		Real: defaultReal, Stub: defaultStub, Assume: append(append([]string{}, defaultAssume...), "the 'no data race' clause is decided by the free-running -race side mode, not by the cooperative scheduler"),
		Body: c13Body,
	})
}

func c13Body(e *Env) {
	c := e.Case
	rng := e.Rng("c13")
	if c.Cfg == nil {
		cfg := DrawPQCfg(e.Rng("cfg"), false)
		drawSched(&cfg, rng)
		e.S.Tune(cfg.Stick, cfg.BgWeight, cfg.Starve, 40)
		cfg.NTx = 5 + rng.Intn(36) // events
		c.Cfg = &cfg
	}
	cfg := *c.Cfg
	d := e.NewDisk("queue")
	p := NewPQ(e, d, cfg)
	p.Prop = "C13"
	p.Concurrent = true
	p.NoRecord = true
	tasks := map[string][]Op{}
	defer func() { c.Tasks = tasks }()
	if err := p.Open(); err != nil {
		e.Fail("C13", "open-failed", "creating file and queue failed: %+v", err)
		return
	}
	defer p.Close()
	var hist []porcupine.Operation
	record := func(client int, in pqHistIn, out pqHistOut, call, ret uint64) {
		hist = append(hist, porcupine.Operation{ClientId: client, Input: in, Call: int64(call), Output: out, Return: int64(ret)})
	}
	explicit := c.Tasks
	done := 0
	var inOp [2]bool
	switches := 0
	mark := func(i int, v bool) {
		inOp[i] = v
		if v && inOp[1-i] {
			switches++
		}
	}
	// producer
	e.S.Go("prod", func() {
		defer func() { done++ }()
		g := NewPQGen(p, e.Rng("prod"))
		g.MaxPagesPerEvent = 3
		step := func(op Op) {
			tasks["prod"] = append(tasks["prod"], op)
			before := p.cbFlushed
			call := e.S.NextSeq()
			mark(0, true)
			ok := p.Apply(op)
			mark(0, false)
			ret := e.S.NextSeq()
			if !ok {
				tasks["prod"] = tasks["prod"][:len(tasks["prod"])-1]
				return
			}
			if k := p.cbFlushed - before; k > 0 {
				record(0, pqHistIn{Kind: "publish", N: k}, pqHistOut{}, call, ret)
				if p.rdActive {
					e.Probe("publish_during_reader_tx")
				}
				// flushes that returned are visible to later reader transactions
				if p.cbFlushed > p.flushedLB {
					p.flushedLB = p.cbFlushed
				}
			}
		}
		if explicit != nil {
			for _, op := range explicit["prod"] {
				if e.Failed() {
					return
				}
				step(op)
				e.Yield("op")
			}
			return
		}
		for p.completed() < cfg.NTx && !e.Failed() {
			var op Op
			switch x := g.Rng.Intn(10); {
			case p.curBytes > 0 && x < 7:
				op = Op{K: "next"}
			case x < 8:
				n := g.evSize()
				if g.Rng.Intn(4) == 0 && n > 2 {
					n = 1 + g.Rng.Intn(n-1)
				}
				op = Op{K: "write", A: n, B: g.chunk(n)}
			default:
				op = Op{K: "flush"}
			}
			step(op)
			e.Yield("op")
		}
		if p.curBytes > 0 {
			step(Op{K: "next"})
		}
		step(Op{K: "flush"})
	})
	// consumer
	e.S.Go("cons", func() {
		defer func() { done++ }()
		r := e.Rng("cons")
		step := func(op Op) bool {
			tasks["cons"] = append(tasks["cons"], op)
			call := e.S.NextSeq()
			beforeIdx := p.rdIdx
			ackedBefore := p.acked
			flushedBefore := p.cbFlushed
			mark(1, true)
			ok := p.Apply(op)
			mark(1, false)
			ret := e.S.NextSeq()
			if !ok {
				tasks["cons"] = tasks["cons"][:len(tasks["cons"])-1]
				return false
			}
			switch op.K {
			case "rbegin":
				record(1, pqHistIn{Kind: "begin"}, pqHistOut{}, call, ret)
			case "rnext":
				out := pqHistOut{Idx: -1}
				if p.rdIdx > beforeIdx {
					out.Idx = beforeIdx
				} else {
					e.Probe("consumer_empty_poll")
				}
				record(1, pqHistIn{Kind: "next"}, out, call, ret)
			case "ack":
				if p.cbFlushed > flushedBefore {
					e.Probe("flush_committed_during_ack")
				}
				if p.acked > ackedBefore {
					record(1, pqHistIn{Kind: "ack", N: p.acked - ackedBefore}, pqHistOut{}, call, ret)
				}
			}
			return true
		}
		if explicit != nil {
			for _, op := range explicit["cons"] {
				if e.Failed() {
					return
				}
				step(op)
				e.Yield("op")
			}
			return
		}
		idle := 0
		for !e.Failed() && idle < 40 {
			if done >= 1 && p.rdIdx >= p.cbFlushed && p.acked >= p.rdDone {
				break
			}
			step(Op{K: "rbegin"})
			e.Yield("op")
			n := 1 + r.Intn(4)
			progressed := false
			for i := 0; i < n && !e.Failed(); i++ {
				before := p.rdIdx
				step(Op{K: "rnext"})
				e.Yield("op")
				if p.rdIdx == before {
					break
				}
				progressed = true
				if r.Intn(10) == 0 {
					// misuse while the producer may be committing: must return an error
					// at once and must not block or disturb the producer (C15)
					step(Op{K: "rbegin2"})
					e.Yield("op")
				}
				for p.rdCur >= 0 && p.rdOff < p.Sizes[p.rdCur] && !e.Failed() {
					if r.Intn(12) == 0 {
						break // skip the rest of the event
					}
					step(Op{K: "rread", A: 1 + r.Intn(2*cfg.PageSize)})
					e.Yield("op")
				}
			}
			step(Op{K: "rdone"})
			e.Yield("op")
			if p.rdDone > p.acked && r.Intn(3) > 0 {
				step(Op{K: "ack", A: r.Intn(1 << 16)})
				e.Yield("op")
			}
			if !progressed {
				idle++
				for i := r.Intn(6); i > 0; i-- {
					e.Yield("cons:idle")
				}
			} else {
				idle = 0
			}
		}
	})
	for done < 2 {
		e.S.YieldUntil("main:wait", func() bool { return done >= 2 })
	}
	if switches > 0 {
		e.ProbeN("switch_inside_queue_op", switches)
		e.Res.Nontrivial = true
	}
	if e.Failed() {
		return
	}
	// linearizability of the recorded history
	if len(hist) > 0 && len(hist) <= 400 {
		res := porcupine.CheckOperationsTimeout(pqLinModel, hist, 20*time.Second)
		switch res {
		case porcupine.Illegal:
			e.Fail("C13", "not-linearizable", "the recorded history of %d operations (publish/begin/next/ack) is not linearizable against the sequential queue model", len(hist))
			return
		case porcupine.Unknown:
			e.Probe("lin_unknown")
		default:
			e.Probe("lin_checked")
		}
	}
	// both tasks are done: the counters must agree with the event history (C17)
	p.Concurrent = false
	if !p.rdActive {
		p.checkCounters("after the concurrent phase")
		if e.Failed() {
			return
		}
	}
	// everything appended must come out; the un-ACKed suffix is redelivered after reopen
	pqFinish(e, p)
	if e.Failed() {
		return
	}
	p.Reopen()
	if e.Failed() {
		return
	}
	n := p.Drain(-1)
	if !e.Failed() && n != p.completed()-p.acked {
		p.fail("redelivery", "after reopen %d events were delivered, expected the %d un-ACKed events", n, p.completed()-p.acked)
	}
	pqProbes(e, p)
}
