package harness

import (
	"sync/atomic"
	"bufio"
	"encoding/json"
	"fmt"
	"os"
	"os/exec"
	"path/filepath"
	"regexp"
	"runtime"
	"sort"
	"strconv"
	"strings"
	"sync"
	"testing"
	"time"

	"verifsim/simdisk"
)

// PropDef registers the simulation of one property.
type PropDef struct {
	ID        string
	Level     string // exploration | fault_enumeration
	Rule      string
	Real      []string
	Stub      []string
	Assume    []string
	Body      Body
	QuickSec  int
	ThoroSec  int
	Serial    bool // run cases outside the simulator (C18)
	Direct    func(c *Case) *Result
	NoShrink  bool
	FaultKinds []string // fault kinds this check injects (for the evidence)
}

var registry = map[string]*PropDef{}

func register(p *PropDef) { registry[p.ID] = p }

var verifRoot = "/verif"

func init() {
	if v := os.Getenv("VERIF_ROOT"); v != "" {
		verifRoot = v
	}
}

// RunCase runs one case of a property.
func RunCase(t *testing.T, c *Case, keepTrace bool) *Result {
	p := registry[c.Prop]
	if p == nil {
		return &Result{Viol: &Violation{Prop: "HARNESS", Class: "unknown-property", Msg: c.Prop}}
	}
	if p.Direct != nil {
		r := p.Direct(c)
		if r.Probes == nil {
			r.Probes = map[string]int{}
		}
		return r
	}
	return RunSim(t, c, keepTrace, p.Body)
}

// ---------------------------------------------------------------------------
// worker

type workerArgs struct {
	Mode    string `json:"mode"` // batch | replay | selftest
	Prop    string `json:"prop"`
	Tier    string `json:"tier"`
	Seed    uint64 `json:"seed"`
	Index   int    `json:"index"`
	Seconds int    `json:"seconds"`
	MaxRuns int    `json:"max_runs"`
	File    string `json:"file"`
	Out     string `json:"out"`
}

type workerOut struct {
	Runs       int            `json:"runs"`
	Evals      int            `json:"evals"`
	Nontrivial int            `json:"nontrivial"`
	Sigs       []uint64       `json:"sigs"`
	Scheds     []uint64       `json:"scheds"`
	Probes     map[string]int `json:"probes"`
	Steps      int            `json:"steps"`
	IOOps      int            `json:"io_ops"`
	Switches   int            `json:"switches"`
	Fired      []int          `json:"fired"`
	Samples    []*Case        `json:"samples"`
	Violations []*Case        `json:"violations"`
	Replays    []string       `json:"replays"`
	WallS      float64        `json:"wall_s"`
	Traces     map[string]string `json:"traces,omitempty"`
	HarnessErr string         `json:"harness_err,omitempty"`
	Extra      map[string]interface{} `json:"-"`
}

func caseSeed(base uint64, worker, i int) uint64 {
	return mix64(base, uint64(worker)+1, uint64(i)+1)
}

func mix64(vs ...uint64) uint64 {
	h := uint64(0x9e3779b97f4a7c15)
	for _, v := range vs {
		h ^= v + 0x9e3779b97f4a7c15 + (h << 6) + (h >> 2)
		h *= 0xbf58476d1ce4e5b9
		h ^= h >> 31
	}
	return h
}

func violKey(v *Violation) string { return v.Prop + "/" + v.Class }

// WorkerMain is executed inside TestWorker.
func WorkerMain(t *testing.T, raw string) {
	var a workerArgs
	if err := json.Unmarshal([]byte(raw), &a); err != nil {
		fmt.Println("HARNESS-ERROR bad worker args:", err)
		os.Exit(2)
	}
	out := &workerOut{Probes: map[string]int{}, Fired: make([]int, simdisk.NumFaultKinds)}
	start := time.Now()
	monitor.watch(&a, out, func() {
		out.WallS = time.Since(start).Seconds()
		b, _ := json.Marshal(out)
		if a.Out != "" {
			os.WriteFile(a.Out, b, 0o644)
		}
	})
	switch a.Mode {
	case "replay":
		workerReplay(t, &a, out)
	case "selftest":
		workerSelftest(t, &a, out)
	case "debug":
		for i := 0; i < a.MaxRuns; i++ {
			c := &Case{Prop: a.Prop, Seed: a.Seed, Tier: a.Tier}
			res := RunCase(t, c, true)
			c.Viol = res.Viol
			os.WriteFile(fmt.Sprintf("%s.%d.trace", a.File, i), []byte(res.Trace), 0o644)
			c.Schedule = nil
			b, _ := json.MarshalIndent(c, "", " ")
			os.WriteFile(fmt.Sprintf("%s.%d.json", a.File, i), b, 0o644)
			out.Runs++
		}
	default:
		workerBatch(t, &a, out, start)
	}
	out.WallS = time.Since(start).Seconds()
	b, _ := json.Marshal(out)
	if a.Out != "" {
		if err := os.WriteFile(a.Out, b, 0o644); err != nil {
			fmt.Println("HARNESS-ERROR", err)
			os.Exit(2)
		}
	} else {
		fmt.Println("RESULT " + string(b))
	}
}

// runMonitor converts a run that never returns (a loop inside the code under
// test without any yield point) into a violation: the worker writes its result
// including a seed-only replay case of class "hang" and exits.
type runMonitor struct {
	mu    sync.Mutex
	cur   *Case
	since time.Time
}

func (m *runMonitor) begin(c *Case) {
	m.mu.Lock()
	m.cur, m.since = c, time.Now()
	m.mu.Unlock()
}

func (m *runMonitor) end() {
	m.mu.Lock()
	m.cur = nil
	m.mu.Unlock()
}

func (m *runMonitor) watch(a *workerArgs, out *workerOut, finish func()) {
	def := 300
	if a.Tier == "quick" {
		def = 150 // quick runs last seconds; the longest (enumerations) end with the batch budget
	}
	limit := time.Duration(envInt("VERIF_RUN_TIMEOUT", def)) * time.Second
	go func() {
		for {
			time.Sleep(time.Second)
			m.mu.Lock()
			c, since := m.cur, m.since
			m.mu.Unlock()
			if c == nil || time.Since(since) < limit {
				continue
			}
			hc := &Case{Prop: c.Prop, Seed: c.Seed, Tier: c.Tier}
			hc.Viol = &Violation{Prop: liveProp(c.Prop), Class: "hang", Msg: fmt.Sprintf("simulated run of seed %016x did not finish within %v: the code under test is looping or blocked without reaching any yield point", c.Seed, limit)}
			out.Violations = append(out.Violations, hc)
			out.Replays = append(out.Replays, writeReplay(hc))
			finish()
			os.Exit(3)
		}
	}()
}

var monitor runMonitor

// enumExpired truncates long per-run enumerations once the batch budget is
// used up. It is set by a timer goroutine outside the synctest bubbles (inside
// a bubble time.Now is the fake clock). Never set in replay mode.
var enumExpired atomic.Bool

func outOfTime() bool { return enumExpired.Load() }

func workerBatch(t *testing.T, a *workerArgs, out *workerOut, start time.Time) {
	known := loadKnown()
	sigs := map[uint64]bool{}
	scheds := map[uint64]bool{}
	seenViol := map[string]bool{}
	deadline := start.Add(time.Duration(a.Seconds) * time.Second)
	// enumerations inside one run (crash images, header damage) stop shortly
	// after the batch budget is used up; the run counts with what it evaluated
	if a.MaxRuns == 0 {
		go func() {
			time.Sleep(time.Until(deadline.Add(3 * time.Second)))
			enumExpired.Store(true)
		}()
	}
	for i := 0; ; i++ {
		if a.MaxRuns > 0 && i >= a.MaxRuns {
			break
		}
		if a.MaxRuns == 0 && time.Now().After(deadline) {
			break
		}
		c := &Case{Prop: a.Prop, Seed: caseSeed(a.Seed, a.Index, i), Tier: a.Tier}
		monitor.begin(c)
		res := RunCase(t, c, false)
		monitor.end()
		out.Runs++
		out.Evals += res.Evals
		out.Steps += res.Steps
		out.IOOps += res.IOOps
		out.Switches += res.Switches
		for k, n := range res.Fired {
			out.Fired[k] += n
		}
		for k, n := range res.Probes {
			out.Probes[k] += n
		}
		if res.Nontrivial {
			// runs that consist of many sub-evaluations report one signature per
			// non-trivial sub-evaluation; otherwise the run signature counts
			if len(res.Sigs) == 0 && !sigs[res.Sig] {
				sigs[res.Sig] = true
				out.Nontrivial++
			}
			for _, s := range res.Sigs {
				if !sigs[s] {
					sigs[s] = true
					out.Nontrivial++
				}
			}
		}
		scheds[res.SchedHash] = true
		if len(out.Samples) < 2 && res.Nontrivial && res.Viol == nil {
			sc := *c
			if len(sc.Schedule) > 40 {
				sc.Schedule = append(append([]string(nil), sc.Schedule[:40]...), fmt.Sprintf("... (%d steps)", len(c.Schedule)))
			}
			out.Samples = append(out.Samples, &sc)
		}
		if res.Viol != nil {
			if res.Viol.Prop == "HARNESS" {
				out.HarnessErr = res.Viol.String()
				c.Viol = res.Viol
				out.Violations = append(out.Violations, c)
				break
			}
			key := violKey(res.Viol)
			if k := known.match(res.Viol); k != nil {
				out.Probes["known_finding:"+k.ID]++
				continue
			}
			if seenViol[key] {
				continue
			}
			seenViol[key] = true
			c.Viol = res.Viol
			min := Shrink(t, c)
			path := writeReplay(min)
			out.Violations = append(out.Violations, min)
			out.Replays = append(out.Replays, path)
			if len(out.Violations) >= 3 {
				break
			}
		}
	}
	for s := range sigs {
		out.Sigs = append(out.Sigs, s)
	}
	for s := range scheds {
		out.Scheds = append(out.Scheds, s)
	}
}

func writeReplay(c *Case) string {
	dir := filepath.Join(verifRoot, "replays")
	os.MkdirAll(dir, 0o755)
	path := filepath.Join(dir, fmt.Sprintf("%s-%s-%016x.json", c.Viol.Prop, sanitize(c.Viol.Class), c.Seed))
	b, _ := json.MarshalIndent(c, "", " ")
	os.WriteFile(path, b, 0o644)
	return path
}

func sanitize(s string) string {
	return regexp.MustCompile(`[^A-Za-z0-9_-]+`).ReplaceAllString(s, "_")
}

func workerReplay(t *testing.T, a *workerArgs, out *workerOut) {
	b, err := os.ReadFile(a.File)
	if err != nil {
		out.HarnessErr = err.Error()
		return
	}
	var c Case
	if err := json.Unmarshal(b, &c); err != nil {
		out.HarnessErr = err.Error()
		return
	}
	want := c.Viol
	c.Viol = nil
	dump := os.Getenv("VERIF_DUMP_TRACE")
	monitor.begin(&c)
	res := RunCase(t, &c, dump != "")
	monitor.end()
	if dump != "" {
		os.WriteFile(dump, []byte(res.Trace), 0o644)
	}
	out.Runs = 1
	if res.Viol != nil {
		c.Viol = res.Viol
		out.Violations = append(out.Violations, &c)
		out.Replays = append(out.Replays, a.File)
	}
	if want != nil && (res.Viol == nil || violKey(res.Viol) != violKey(want)) {
		got := "no violation"
		if res.Viol != nil {
			got = res.Viol.String()
		}
		out.HarnessErr = fmt.Sprintf("replay did not reproduce %s: got %s", want.String(), got)
	}
}

// workerSelftest runs a list of seeds with full traces.
func workerSelftest(t *testing.T, a *workerArgs, out *workerOut) {
	out.Traces = map[string]string{}
	for i := 0; i < a.MaxRuns; i++ {
		c := &Case{Prop: a.Prop, Seed: caseSeed(a.Seed, 0, i), Tier: "quick"}
		res := RunCase(t, c, true)
		out.Runs++
		h := fnv64(res.Trace)
		v := ""
		if res.Viol != nil {
			v = res.Viol.String()
		}
		out.Traces[fmt.Sprintf("%016x", c.Seed)] = fmt.Sprintf("%016x steps=%d io=%d viol=%q", h, res.Steps, res.IOOps, v)
		if os.Getenv("VERIF_DUMP_TRACE") != "" {
			os.WriteFile(fmt.Sprintf("%s/trace-%016x-%d.txt", os.Getenv("VERIF_DUMP_TRACE"), c.Seed, os.Getpid()), []byte(res.Trace), 0o644)
		}
	}
}

func fnv64(s string) uint64 {
	h := uint64(14695981039346656037)
	for i := 0; i < len(s); i++ {
		h = (h ^ uint64(s[i])) * 1099511628211
	}
	return h
}

// ---------------------------------------------------------------------------
// known findings

type knownFinding struct {
	ID       string `json:"id"`
	Property string `json:"property"`
	Class    string `json:"class"`
	Match    string `json:"match"` // regular expression on the violation message
	What     string `json:"what"`
	re       *regexp.Regexp
	cre      *regexp.Regexp
}

type knownFile struct {
	Known []*knownFinding `json:"known"`
	Fixed []string        `json:"fixed"`
}

func loadKnown() *knownFile {
	k := &knownFile{}
	b, err := os.ReadFile(filepath.Join(verifRoot, "known_findings.json"))
	if err != nil {
		return k
	}
	if err := json.Unmarshal(b, k); err != nil {
		fmt.Println("HARNESS-ERROR known_findings.json:", err)
		os.Exit(2)
	}
	for _, f := range k.Known {
		f.re = regexp.MustCompile(f.Match)
		f.cre = regexp.MustCompile("^(?:" + f.Class + ")$")
	}
	return k
}

func (k *knownFile) match(v *Violation) *knownFinding {
	for _, f := range k.Known {
		if f.Property == v.Prop && f.cre.MatchString(v.Class) && f.re.MatchString(v.Msg) {
			return f
		}
	}
	return nil
}

// ---------------------------------------------------------------------------
// parent driver

func DriverMain(args []string) int {
	if len(args) < 1 {
		fmt.Println("usage: simcheck check <prop> <tier> | replay <file> | selftest [props] | list")
		return 2
	}
	switch args[0] {
	case "list":
		var ids []string
		for id := range registry {
			ids = append(ids, id)
		}
		sort.Strings(ids)
		fmt.Println(strings.Join(ids, " "))
		return 0
	case "check":
		if len(args) < 3 {
			fmt.Println("usage: simcheck check <prop> <quick|thorough>")
			return 2
		}
		return driverCheck(args[1], args[2])
	case "replay":
		if len(args) < 2 {
			return 2
		}
		return driverReplay(args[1])
	case "selftest":
		return driverSelftest(args[1:])
	case "debug": // debug <prop> <seed-hex> <n> <outprefix>
		seed, _ := strconv.ParseUint(args[2], 16, 64)
		n, _ := strconv.Atoi(args[3])
		_, log, err := spawnWorker(workerArgs{Mode: "debug", Prop: args[1], Seed: seed, MaxRuns: n, File: args[4], Tier: "quick"}, nil, 10*time.Minute)
		fmt.Println(err, tail(log, 10))
		return 0
	}
	fmt.Println("unknown command", args[0])
	return 2
}

func envInt(name string, def int) int {
	if v := os.Getenv(name); v != "" {
		if n, err := strconv.Atoi(v); err == nil {
			return n
		}
	}
	return def
}

func baseSeed() uint64 {
	if v := os.Getenv("VERIF_SEED"); v != "" {
		if n, err := strconv.ParseUint(v, 10, 64); err == nil {
			return n
		}
		if n, err := strconv.ParseInt(v, 10, 64); err == nil {
			return uint64(n)
		}
	}
	return 20260923
}

func spawnWorker(a workerArgs, extraEnv []string, timeout time.Duration) (*workerOut, string, error) {
	tmp, err := os.CreateTemp("", "simworker-*.json")
	if err != nil {
		return nil, "", err
	}
	tmp.Close()
	defer os.Remove(tmp.Name())
	a.Out = tmp.Name()
	raw, _ := json.Marshal(a)
	cmd := exec.Command(os.Args[0], "-test.run=^TestWorker$", "-test.timeout=0", "-test.count=1")
	cmd.Env = append(os.Environ(), "VERIF_WORKER="+string(raw))
	cmd.Env = append(cmd.Env, extraEnv...)
	var sb strings.Builder
	var mu sync.Mutex
	stdout, _ := cmd.StdoutPipe()
	cmd.Stderr = cmd.Stdout
	if err := cmd.Start(); err != nil {
		return nil, "", err
	}
	done := make(chan struct{})
	go func() {
		sc := bufio.NewScanner(stdout)
		sc.Buffer(make([]byte, 1<<20), 64<<20)
		for sc.Scan() {
			mu.Lock()
			if sb.Len() < 1<<20 {
				sb.WriteString(sc.Text())
				sb.WriteByte('\n')
			}
			mu.Unlock()
		}
		close(done)
	}()
	timer := time.AfterFunc(timeout, func() { cmd.Process.Kill() })
	werr := cmd.Wait()
	timer.Stop()
	<-done
	mu.Lock()
	log := sb.String()
	mu.Unlock()
	b, rerr := os.ReadFile(tmp.Name())
	if rerr != nil || len(b) == 0 {
		return nil, log, fmt.Errorf("worker produced no result (%v)", werr)
	}
	out := &workerOut{}
	if err := json.Unmarshal(b, out); err != nil {
		return nil, log, err
	}
	return out, log, nil
}

func driverCheck(prop, tier string) int {
	p := registry[prop]
	if p == nil {
		fmt.Println("unknown property", prop)
		return 2
	}
	if tier != "quick" && tier != "thorough" {
		fmt.Println("unknown tier", tier)
		return 2
	}
	secs := p.QuickSec
	if tier == "thorough" {
		secs = p.ThoroSec
	}
	if v := envInt("VERIF_SECONDS", 0); v > 0 {
		secs = v
	}
	nw := envInt("VERIF_WORKERS", runtime.NumCPU())
	if nw < 1 {
		nw = 1
	}
	seed := baseSeed()
	fmt.Printf("simcheck: property=%s tier=%s seed=%d workers=%d budget=%ds\n", prop, tier, seed, nw, secs)
	start := time.Now()
	outs := make([]*workerOut, nw)
	logs := make([]string, nw)
	errs := make([]error, nw)
	var wg sync.WaitGroup
	for i := 0; i < nw; i++ {
		wg.Add(1)
		go func(i int) {
			defer wg.Done()
			a := workerArgs{Mode: "batch", Prop: prop, Tier: tier, Seed: seed, Index: i, Seconds: secs}
			outs[i], logs[i], errs[i] = spawnWorker(a, nil, time.Duration(secs)*time.Second*3+5*time.Minute)
		}(i)
	}
	wg.Wait()
	wall := time.Since(start).Seconds()

	agg := &workerOut{Probes: map[string]int{}, Fired: make([]int, simdisk.NumFaultKinds)}
	sigs := map[uint64]bool{}
	scheds := map[uint64]bool{}
	trouble := false
	for i, o := range outs {
		if errs[i] != nil || o == nil {
			fmt.Printf("HARNESS-ERROR worker %d: %v\n%s\n", i, errs[i], tail(logs[i], 40))
			trouble = true
			continue
		}
		if o.HarnessErr != "" {
			fmt.Printf("HARNESS-ERROR worker %d: %s\n", i, o.HarnessErr)
			trouble = true
		}
		agg.Runs += o.Runs
		agg.Evals += o.Evals
		agg.Steps += o.Steps
		agg.IOOps += o.IOOps
		agg.Switches += o.Switches
		for k, n := range o.Fired {
			agg.Fired[k] += n
		}
		for k, n := range o.Probes {
			agg.Probes[k] += n
		}
		for _, s := range o.Sigs {
			sigs[s] = true
		}
		for _, s := range o.Scheds {
			scheds[s] = true
		}
		if len(agg.Samples) < 3 {
			agg.Samples = append(agg.Samples, o.Samples...)
		}
		for j, v := range o.Violations {
			if v.Viol != nil && v.Viol.Prop == "HARNESS" {
				continue
			}
			agg.Violations = append(agg.Violations, v)
			if j < len(o.Replays) {
				agg.Replays = append(agg.Replays, o.Replays[j])
			}
		}
	}

	// de-duplicate violations by class, verify that replays reproduce
	exit := 0
	seen := map[string]bool{}
	nviol := 0
	for i, v := range agg.Violations {
		key := violKey(v.Viol)
		if seen[key] {
			continue
		}
		seen[key] = true
		path := ""
		if i < len(agg.Replays) {
			path = agg.Replays[i]
		}
		ok, msg := replayReproduces(path)
		if !ok {
			fmt.Printf("HARNESS-ERROR replay %s does not reproduce: %s\n", path, msg)
			trouble = true
			continue
		}
		nviol++
		// the line names the property whose check ran; the oracle that fired may
		// belong to a neighbouring property (shared runner oracles)
		fmt.Printf("VIOLATION property=%s replay=%s\n", prop, path)
		fmt.Printf("  class=%s oracle=%s\n  %s\n", v.Viol.Class, v.Viol.Prop, strings.ReplaceAll(v.Viol.Msg, "\n", "\n  "))
		exit = 1
	}
	// race side mode (C09, C13): free-running goroutines, binary built with -race
	raceInfo := map[string]interface{}{}
	if prop == "C09" || prop == "C13" {
		rsecs := 12
		if tier == "thorough" {
			rsecs = 240
		}
		if v := envInt("VERIF_RACE_SECONDS", 0); v > 0 {
			rsecs = v
		}
		runs, races, report, rerr := runRaceMode(prop, seed, rsecs)
		raceInfo = map[string]interface{}{"seconds": rsecs, "runs": runs, "data_races_reported": races, "note": "free-running goroutines on the real os file implementation, hooks disabled, binary built with -race; not schedule-replayable (replay file = seed + race report)"}
		switch {
		case rerr != nil:
			fmt.Printf("HARNESS-ERROR race side mode: %v\n", rerr)
			trouble = true
		case races > 0 || report != "":
			class := "data-race"
			if races == 0 {
				class = "race-mode-error"
			}
			rc := &Case{Prop: prop, Seed: seed, Tier: tier, Viol: &Violation{Prop: prop, Class: class, Msg: firstLines(report, 60)}, Notes: []string{"race side mode; re-run: VERIF_RACE=" + fmt.Sprintf("%s:%d:%d", prop, seed, rsecs) + " bin/simcheck-race"}}
			path := writeReplay(rc)
			nviol++
			exit = 1
			fmt.Printf("VIOLATION property=%s replay=%s\n  class=%s\n  %s\n", prop, path, class, strings.ReplaceAll(firstLines(report, 25), "\n", "\n  "))
		}
	}
	known := loadKnown()
	var knownPrinted []string
	for _, f := range known.Known {
		if n := agg.Probes["known_finding:"+f.ID]; n > 0 {
			line := fmt.Sprintf("KNOWN-FINDING: property=%s %s (seen %d times)", f.Property, f.What, n)
			fmt.Println(line)
			knownPrinted = append(knownPrinted, line)
		}
	}

	if len(raceInfo) > 0 {
		agg.Extra = map[string]interface{}{"race_side_mode": raceInfo}
	}
	wall = time.Since(start).Seconds()
	writeEvidence(p, tier, seed, agg, len(sigs), len(scheds), wall, nviol, knownPrinted, nw)
	fmt.Printf("simcheck: %s %s: runs=%d evaluations=%d distinct_nontrivial=%d interleavings=%d wall=%.1fs violations=%d\n",
		prop, tier, agg.Runs, agg.Evals, len(sigs), len(scheds), wall, nviol)
	if trouble && exit == 0 {
		return 2
	}
	return exit
}

func tail(s string, n int) string {
	ls := strings.Split(strings.TrimRight(s, "\n"), "\n")
	if len(ls) > n {
		ls = ls[len(ls)-n:]
	}
	return strings.Join(ls, "\n")
}

func replayReproduces(path string) (bool, string) {
	if path == "" {
		return false, "no replay file"
	}
	out, log, err := spawnWorker(workerArgs{Mode: "replay", File: path}, nil, 20*time.Minute)
	if err != nil {
		return false, err.Error() + "\n" + tail(log, 20)
	}
	if out.HarnessErr != "" {
		return false, out.HarnessErr
	}
	return len(out.Violations) > 0, "no violation on replay"
}

func driverReplay(path string) int {
	out, log, err := spawnWorker(workerArgs{Mode: "replay", File: path}, nil, 30*time.Minute)
	if err != nil {
		fmt.Println("HARNESS-ERROR", err)
		fmt.Println(tail(log, 40))
		return 2
	}
	if out.HarnessErr != "" {
		fmt.Println("HARNESS-ERROR", out.HarnessErr)
		return 2
	}
	if len(out.Violations) > 0 {
		v := out.Violations[0].Viol
		fmt.Printf("VIOLATION property=%s replay=%s\n  class=%s\n  %s\n", v.Prop, path, v.Class, v.Msg)
		return 1
	}
	fmt.Println("replay: no violation")
	return 0
}

// driverSelftest checks determinism: every seed is executed in several fresh
// processes with different GOMAXPROCS; all event logs must be identical.
func driverSelftest(props []string) int {
	if len(props) == 0 {
		for id, p := range registry {
			if p.Direct == nil {
				props = append(props, id)
			}
		}
		sort.Strings(props)
	}
	nseeds := envInt("VERIF_SELFTEST_SEEDS", 12)
	procs := []string{"1", "4", "16", "2"}
	bad := 0
	for _, prop := range props {
		var ref map[string]string
		for pi, gmp := range procs {
			out, log, err := spawnWorker(workerArgs{Mode: "selftest", Prop: prop, Seed: baseSeed(), MaxRuns: nseeds}, []string{"GOMAXPROCS=" + gmp}, 30*time.Minute)
			if err != nil {
				fmt.Printf("HARNESS-ERROR selftest %s: %v\n%s\n", prop, err, tail(log, 30))
				return 2
			}
			if pi == 0 {
				ref = out.Traces
				continue
			}
			for seed, h := range out.Traces {
				if ref[seed] != h {
					fmt.Printf("NONDETERMINISM property=%s seed=%s GOMAXPROCS=%s: %s vs %s\n", prop, seed, gmp, ref[seed], h)
					bad++
				}
			}
		}
		fmt.Printf("selftest %s: %d seeds x %d processes identical=%v\n", prop, nseeds, len(procs), bad == 0)
	}
	if bad > 0 {
		return 2
	}
	return 0
}

// ---------------------------------------------------------------------------
// evidence

func writeEvidence(p *PropDef, tier string, seed uint64, agg *workerOut, distinct, scheds int, wall float64, nviol int, known []string, nw int) {
	faults := map[string]int{}
	for k, n := range agg.Fired {
		faults[simdisk.FaultKind(k).String()] = n
	}
	var unreached []string
	for _, name := range probeNames[p.ID] {
		if agg.Probes[name] == 0 {
			unreached = append(unreached, name)
		}
	}
	samples := []interface{}{}
	for _, s := range agg.Samples {
		samples = append(samples, s)
	}
	if len(samples) == 0 {
		samples = append(samples, map[string]interface{}{"note": "no non-trivial sample recorded in this run"})
	}
	perHour := 0.0
	if wall > 0 {
		perHour = float64(agg.Runs) / wall * 3600
	}
	cov := map[string]interface{}{
		"evaluations":         agg.Evals,
		"distinct_nontrivial": distinct,
		"rule":                p.Rule,
		"samples":             samples,
		"exhaustive":          false,
		"simulated_runs":      agg.Runs,
		"runs_per_hour":       int(perHour),
		"scheduler_steps":     agg.Steps,
		"io_ops_simulated":    agg.IOOps,
		"context_switches":    agg.Switches,
		"distinct_interleavings": scheds,
		"interleaving_measure": "distinct hashes of the complete (task, yield point) sequence of a run",
		"simulated_time":      "the engine has no timers or deadlines; simulated time is reported as scheduler steps and I/O operations",
		"faults_fired":        faults,
		"fault_kinds_injected": p.FaultKinds,
		"fault_kinds_not_applicable": []string{"clock skew/jump (no timers in engine)", "network loss/dup/partition (no transport)", "allocation failure (no recoverable path)"},
		"probes":              agg.Probes,
		"probes_unreached":    unreached,
		"components_real":     p.Real,
		"components_stub":     p.Stub,
		"workers":             nw,
		"toolchain":           runtime.Version(),
		"known_findings":      known,
	}
	for k, v := range agg.Extra {
		cov[k] = v
	}
	ev := map[string]interface{}{
		"property_id": p.ID,
		"tier":        tier,
		"seed":        int64(seed & 0x7fffffffffffffff),
		"level":       p.Level,
		"coverage":    cov,
		"assumptions": p.Assume,
		"wall_s":      wall,
		"violations":  nviol,
	}
	dir := filepath.Join(verifRoot, "evidence")
	os.MkdirAll(dir, 0o755)
	b, _ := json.MarshalIndent(ev, "", " ")
	os.WriteFile(filepath.Join(dir, p.ID+".json"), b, 0o644)
}

var probeNames = map[string][]string{}

var defaultReal = []string{"txfile (all of package txfile: File, Tx, Page, allocator, freelist, WAL, writer goroutine, locks)", "txfile/pq", "txfile/txerr", "internal/{cleanup,invariant,iter,strbld}", "Go runtime goroutines and sync primitives (real goroutines, scheduled cooperatively)"}
var defaultStub = []string{"internal/vfs/osfs replaced by simdisk (simulated vfs.File: page cache, mmap views, op log, faults)", "operating system path lock (flag in simdisk)", "Observer callbacks (recording stub)"}
var defaultAssume = []string{
	"fdatasync/fsync make all earlier writes durable; un-synced page writes are persisted or lost individually and atomically (page granular); only the 84-byte header write may tear",
	"MAP_SHARED mappings are coherent with pwrite",
	"yield points: txfile hooks (build tag verif) plus every simulated disk write/sync; interleavings inside code sections without a yield point are not explored",
	"seeded sampling: a clean batch is evidence, not proof",
}

// runRaceMode executes the -race binary in side mode and parses its output.
func runRaceMode(prop string, seed uint64, secs int) (runs, races int, report string, err error) {
	bin := filepath.Join(verifRoot, "bin", "simcheck-race")
	if _, serr := os.Stat(bin); serr != nil {
		return 0, 0, "", fmt.Errorf("race binary missing: %v", serr)
	}
	cmd := exec.Command(bin)
	cmd.Env = append(os.Environ(), fmt.Sprintf("VERIF_RACE=%s:%d:%d", prop, seed&0xffffffff, secs), "GORACE=halt_on_error=0")
	timer := time.AfterFunc(time.Duration(secs)*time.Second*2+5*time.Minute, func() { cmd.Process.Kill() })
	out, _ := cmd.CombinedOutput()
	timer.Stop()
	text := string(out)
	for _, l := range strings.Split(text, "\n") {
		if strings.HasPrefix(l, "RACE-RUNS ") {
			fmt.Sscanf(l, "RACE-RUNS %d", &runs)
		}
		if strings.HasPrefix(l, "RACE-ERROR ") {
			report += l + "\n"
		}
	}
	races = strings.Count(text, "WARNING: DATA RACE")
	if races > 0 {
		i := strings.Index(text, "WARNING: DATA RACE")
		report += text[i:]
	}
	if runs == 0 && races == 0 && report == "" {
		return 0, 0, "", fmt.Errorf("no output from race binary: %s", tail(text, 10))
	}
	return runs, races, report, nil
}
