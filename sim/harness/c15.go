package harness

import (
	"fmt"

	txfile "github.com/elastic/go-txfile"
	"github.com/elastic/go-txfile/pq"
	"github.com/elastic/go-txfile/txerr"
)

type misuse struct {
	e     *Env
	cells int
}

// cell executes one misuse call under recover and judges the result.
// kinds lists the acceptable documented error kinds (nil = any error).
func (m *misuse) cell(name string, kinds []error, fn func() error) {
	e := m.e
	if e.Failed() {
		return
	}
	m.cells++
	var err error
	if e.Guard("C15", "misuse: "+name, func() { err = fn() }) {
		e.viol.Msg = "misuse cell [" + name + "]: " + e.viol.Msg
		return
	}
	if err == nil {
		e.Fail("C15", "no-error", "misuse cell [%s] returned no error", name)
		return
	}
	if len(kinds) == 0 {
		return
	}
	for _, k := range kinds {
		if txerr.Is(k, err) {
			return
		}
	}
	e.Fail("C15", "wrong-kind", "misuse cell [%s] returned an error of an undocumented kind (%v), expected one of %v", name, err, kinds)
}

// finishedTx runs all error-returning methods on a finished transaction.
func (m *misuse) finishedTx(tx *txfile.Tx, pages []*txfile.Page, state string, readonly bool, validID PageID) {
	fin := []error{txfile.TxFinished}
	wr := fin
	if readonly {
		wr = []error{txfile.TxFinished, txfile.TxReadOnly}
	}
	n := func(s string) string { return fmt.Sprintf("%s on %s transaction", s, state) }
	if tx.Root() >= 2 {
		m.cell(n("Tx.RootPage"), fin, func() error { _, err := tx.RootPage(); return err })
	}
	m.cell(n("Tx.Page"), fin, func() error { _, err := tx.Page(validID); return err })
	m.cell(n("Tx.Alloc"), wr, func() error { _, err := tx.Alloc(); return err })
	m.cell(n("Tx.AllocN"), wr, func() error { _, err := tx.AllocN(2); return err })
	m.cell(n("Tx.Flush"), wr, func() error { return tx.Flush() })
	m.cell(n("Tx.CheckpointWAL"), wr, func() error { return tx.CheckpointWAL() })
	m.cell(n("Tx.Commit"), fin, func() error { return tx.Commit() })
	m.cell(n("Tx.Rollback"), fin, func() error { return tx.Rollback() })
	// documented: Close on a finished transaction is ignored
	if !m.e.Failed() {
		m.cells++
		var err error
		if !m.e.Guard("C15", n("Tx.Close"), func() { err = tx.Close() }) && err != nil {
			m.e.Fail("C15", "close-finished", "Tx.Close on %s transaction returned an error (documented: ignored): %v", state, err)
		}
	}
	for i, p := range pages {
		if i >= 3 {
			break
		}
		pn := func(s string) string { return fmt.Sprintf("%s on page %d of %s transaction", s, p.ID(), state) }
		m.cell(pn("Page.Bytes"), fin, func() error { _, err := p.Bytes(); return err })
		m.cell(pn("Page.Load"), wr, func() error { return p.Load() })
		m.cell(pn("Page.SetBytes"), wr, func() error { return p.SetBytes([]byte{1, 2, 3}) })
		m.cell(pn("Page.MarkDirty"), wr, func() error { return p.MarkDirty() })
		m.cell(pn("Page.Free"), wr, func() error { return p.Free() })
		m.cell(pn("Page.Flush"), wr, func() error { return p.Flush() })
	}
}

// refetchFreed: Tx.Page of a page freed in this transaction either fails or
// returns a handle that rejects every modification.
func (m *misuse) refetchFreed(tx *txfile.Tx, id PageID, ps int, op []error) {
	h2, err := tx.Page(id)
	if err != nil || h2 == nil {
		return
	}
	m.e.Probe("cell_refetched_freed_page")
	m.cell(fmt.Sprintf("Page.SetBytes through a handle fetched again for freed page %d", id), op, func() error { return h2.SetBytes(make([]byte, ps)) })
	m.cell(fmt.Sprintf("Page.MarkDirty through a handle fetched again for freed page %d", id), op, func() error { return h2.MarkDirty() })
	m.cell(fmt.Sprintf("Page.Free through a handle fetched again for freed page %d", id), op, func() error { return h2.Free() })
}

// activeWritable runs misuse cells inside the runner's active write transaction.
func (m *misuse) activeWritable(r *Runner) {
	tx := r.tx
	ps := r.Cfg.PageSize
	inv := []error{txfile.InvalidPageID}
	op := []error{txfile.InvalidOp}
	m.cell("Tx.Page(0)", inv, func() error { _, err := tx.Page(0); return err })
	m.cell("Tx.Page(1)", inv, func() error { _, err := tx.Page(1); return err })
	end := txfile.VerifAllocSnapshot(r.F).DataEnd
	m.cell(fmt.Sprintf("Tx.Page(%d) at the end marker", end), inv, func() error { _, err := tx.Page(end); return err })
	m.cell(fmt.Sprintf("Tx.Page(%d) far beyond the end marker", end+1000), inv, func() error { _, err := tx.Page(end + 1000); return err })
	// deterministic order over the transaction's pages
	ids := make([]PageID, 0, len(r.txPages))
	for id := range r.txPages {
		ids = append(ids, id)
	}
	sortIDs(ids)
	var seenFreed, seenDirty, seenFlushed, seenEmpty, seenOversize bool
	nFreed := 0
	for _, id := range ids {
		p := r.txPages[id]
		switch {
		case p.freed && !seenFreed:
			seenFreed = true
			// a page freed and recycled by a later allocation is accessible again
			if !p.isNew {
				m.cell(fmt.Sprintf("Tx.Page(%d) of a page freed in this transaction", id), op, func() error { _, err := tx.Page(id); return err })
			}
			m.cell(fmt.Sprintf("Page.SetBytes on freed page %d", id), op, func() error { return p.h.SetBytes(make([]byte, ps)) })
			m.cell(fmt.Sprintf("Page.Load on freed page %d", id), op, func() error { return p.h.Load() })
			m.cell(fmt.Sprintf("Page.MarkDirty on freed page %d", id), op, func() error { return p.h.MarkDirty() })
			m.cell(fmt.Sprintf("Page.Free on freed page %d", id), op, func() error { return p.h.Free() })
			m.cell(fmt.Sprintf("Page.Flush on freed page %d", id), op, func() error { return p.h.Flush() })
			m.refetchFreed(tx, id, ps, op)
		case p.freed:
			// fetching the page again (also after a Tx.Flush in between) must not
			// bring a freed page back to life
			if nFreed++; nFreed <= 4 {
				m.refetchFreed(tx, id, ps, op)
			}
		case p.flushed && !seenFlushed:
			seenFlushed = true
			m.cell(fmt.Sprintf("Page.SetBytes on flushed page %d", id), op, func() error { return p.h.SetBytes(make([]byte, ps)) })
			m.cell(fmt.Sprintf("Page.Load on flushed page %d", id), op, func() error { return p.h.Load() })
			m.cell(fmt.Sprintf("Page.MarkDirty on flushed page %d", id), op, func() error { return p.h.MarkDirty() })
			m.cell(fmt.Sprintf("Page.Free on flushed page %d", id), op, func() error { return p.h.Free() })
		case p.flushed:
		case p.dirty && !seenDirty:
			seenDirty = true
			m.cell(fmt.Sprintf("Page.Free on dirty page %d", id), op, func() error { return p.h.Free() })
		case p.isNew && !p.known && !p.dirty && !seenEmpty:
			seenEmpty = true
			m.cell(fmt.Sprintf("Page.Bytes on new page %d without contents", id), op, func() error { _, err := p.h.Bytes(); return err })
		}
		if !p.freed && !p.flushed && !seenOversize {
			seenOversize = true
			m.cell(fmt.Sprintf("Page.SetBytes(%d bytes) on page %d", ps+1, id), []error{txfile.InvalidParam}, func() error { return p.h.SetBytes(make([]byte, ps+1)) })
		}
	}
	if seenFreed {
		m.e.Probe("cell_freed_page")
	}
	if seenFlushed {
		m.e.Probe("cell_flushed_page")
	}
	if seenDirty {
		m.e.Probe("cell_dirty_page")
	}
	if seenEmpty {
		m.e.Probe("cell_new_empty_page")
	}
}

func sortIDs(ids []PageID) {
	for i := 1; i < len(ids); i++ {
		for j := i; j > 0 && ids[j] < ids[j-1]; j-- {
			ids[j], ids[j-1] = ids[j-1], ids[j]
		}
	}
}

// readonlyTx runs write operations inside (and after) a read-only transaction.
func (m *misuse) readonlyTx(r *Runner) {
	e := m.e
	tx, err := r.F.BeginReadonly()
	if err != nil {
		e.Fail("C09", "begin-failed", "BeginReadonly failed: %v", err)
		return
	}
	ro := []error{txfile.TxReadOnly}
	m.cell("Tx.Alloc in read-only transaction", ro, func() error { _, err := tx.Alloc(); return err })
	m.cell("Tx.AllocN in read-only transaction", ro, func() error { _, err := tx.AllocN(3); return err })
	m.cell("Tx.Flush in read-only transaction", ro, func() error { return tx.Flush() })
	m.cell("Tx.CheckpointWAL in read-only transaction", ro, func() error { return tx.CheckpointWAL() })
	var pages []*txfile.Page
	var valid PageID = 2
	for _, id := range r.Cur().ids() {
		if r.Cur().Pages[id] == nil {
			continue
		}
		valid = id
		p, err := tx.Page(id)
		if err != nil {
			e.Fail("C03", "page-access", "Page(%d) in read transaction failed: %v", id, err)
			break
		}
		pages = append(pages, p)
		m.cell(fmt.Sprintf("Page.Load on page %d in read-only transaction", id), ro, func() error { return p.Load() })
		m.cell(fmt.Sprintf("Page.SetBytes on page %d in read-only transaction", id), ro, func() error { return p.SetBytes([]byte{9}) })
		m.cell(fmt.Sprintf("Page.MarkDirty on page %d in read-only transaction", id), ro, func() error { return p.MarkDirty() })
		m.cell(fmt.Sprintf("Page.Free on page %d in read-only transaction", id), ro, func() error { return p.Free() })
		m.cell(fmt.Sprintf("Page.Flush on page %d in read-only transaction", id), ro, func() error { return p.Flush() })
		break
	}
	end := txfile.VerifAllocSnapshot(r.F).DataEnd
	m.cell("Tx.Page(end marker) in read-only transaction", []error{txfile.InvalidPageID}, func() error { _, err := tx.Page(end); return err })
	m.cell("Tx.Page(1) in read-only transaction", []error{txfile.InvalidPageID}, func() error { _, err := tx.Page(1); return err })
	if !e.Failed() {
		if msg := VerifyState(tx, r.Cur()); msg != "" {
			e.Fail("C15", "state-changed", "after misuse calls inside a read-only transaction the transaction no longer sees the committed state: %s", msg)
		}
	}
	if err := tx.Close(); err != nil {
		e.Fail("C15", "close-error", "closing the read-only transaction after misuse failed: %v", err)
	}
	m.finishedTx(tx, pages, "closed read-only", true, valid)
	e.Probe("cell_readonly_tx")
}

func init() {
	probeNames["C15"] = []string{"cells", "cell_freed_page", "cell_refetched_freed_page", "cell_flushed_page", "cell_dirty_page", "cell_new_empty_page", "cell_readonly_tx", "state_commit-ok", "state_commit-failed", "state_rollback", "state_closetx", "queue_cells"}
	register(&PropDef{
		ID: "C15", Level: "exploration", QuickSec: 50, ThoroSec: 900,
		Rule: "each run = one seeded txops history with misuse cells injected at seeded points, followed by a queue history with queue misuse cells. Transaction matrix (exhaustive per injection point): every error-returning method of Tx (RootPage, Page, Alloc, AllocN, Flush, CheckpointWAL, Commit, Rollback, Close) and Page (Bytes, Load, SetBytes, MarkDirty, Free, Flush) x receiver state {active read-only, active writable, committed, rolled back, closed, commit failed from out-of-space} x page state {freed (also through a handle fetched again with Tx.Page after the free), flushed, dirty, new-empty, id<2, id at/beyond end marker, oversize contents}; queue matrix: Reader.Next/Read/Available without Begin, Begin twice, Reader/Writer methods and ACK after Queue.Close, ACK on empty queue, ACK(n>pending). Oracle per cell: executed under recover, must return a non-nil error of the documented kind (TxFinished, TxReadOnly, InvalidOp, InvalidPageID, InvalidParam, InactiveTx, UnexpectedActiveTx, ReaderClosed, WriterClosed, QueueClosed, ACKEmptyQueue, ACKTooMany; Tx.Close on a finished transaction returns nil), must not panic or block (scheduler deadlock detection), and afterwards the interrupted history continues with the full model oracle (committed state, running transaction's own reads, partition, idle locks). Non-trivial = run in which cells ran against at least three different receiver states; distinct = op list + injection points + config.",
		Real: defaultReal, Stub: defaultStub, Assume: defaultAssume,
		Body: c15Body,
	})
}

func c15Body(e *Env) {
	c := e.Case
	rng := e.Rng("c15")
	m := &misuse{e: e}
	if c.Cfg == nil {
		cfg := DrawCfg(e.Rng("cfg"), 0)
		cfg.NTx = 3 + rng.Intn(8)
		cfg.Mix = []string{"balanced", "rollback", "overwrite", "alloc"}[rng.Intn(4)]
		if rng.Intn(3) == 0 {
			cfg.MaxSize, cfg.PageSize, cfg.InitMeta = 64<<10, 4096, 0 // commits failing from out of space
		}
		cfg.NoYieldIO = rng.Intn(2) == 0
		c.Cfg = &cfg
	}
	cfg := *c.Cfg
	states := map[string]bool{}
	d := e.NewDisk("file")
	r := NewRunner(e, d, cfg)
	var txOps, qOps []Op
	defer func() { c.Tasks = map[string][]Op{"main": txOps, "queue": qOps} }()
	if err := r.Open(); err != nil {
		e.Fail("C15", "open-failed", "creating the file failed: %v", err)
		return
	}
	r.NoRecord = true
	g := NewGen(r, e.Rng("ops"), cfg.Mix)
	g.NoReopen = true
	inject := e.Rng("inject")
	doMisuse := func() {
		switch {
		case r.InTx() && r.txDirtyUnknown:
			// a failed Tx.Flush left the flush state of the pages unknown to the model
		case r.InTx():
			m.activeWritable(r)
			states["active-writable"] = true
		default:
			if r.LastTx != nil {
				var valid PageID = 2
				for id := range r.Cur().Pages {
					valid = id
					break
				}
				_ = valid
				ids := r.Cur().ids()
				if len(ids) > 0 {
					valid = ids[0]
				}
				m.finishedTx(r.LastTx, r.LastPages, r.LastEnd, false, valid)
				states[r.LastEnd] = true
				e.Probe("state_" + r.LastEnd)
			}
			m.readonlyTx(r)
			states["read-only"] = true
			if !e.Failed() {
				r.VerifyAll("after misuse cells")
				r.CheckPartition()
				r.CheckLocksIdle("after misuse cells")
			}
		}
	}
	step := func(op Op) bool {
		if op.K == "misuse" {
			txOps = append(txOps, op)
			doMisuse()
			return true
		}
		txOps = append(txOps, op)
		if !r.Apply(op) {
			txOps = txOps[:len(txOps)-1]
			return false
		}
		return true
	}
	if c.Tasks != nil {
		for _, op := range c.Tasks["main"] {
			if e.Failed() {
				break
			}
			step(op)
			e.Yield("op")
		}
	} else {
		ended := 0
		for ended < cfg.NTx && !e.Failed() {
			op := g.Next()
			if step(op) {
				switch op.K {
				case "commit", "rollback", "closetx":
					ended++
				}
				if inject.Intn(4) == 0 && !e.Failed() {
					step(Op{K: "misuse"})
				}
			}
			e.Yield("op")
		}
	}
	if r.InTx() && !e.Failed() {
		step(Op{K: "rollback"})
		step(Op{K: "misuse"})
	}
	if !e.Failed() {
		r.Reopen()
	}
	r.Close()
	if e.Failed() {
		return
	}

	// --- queue misuse
	qcfg := DrawPQCfg(e.Rng("qcfg"), false)
	p := NewPQ(e, e.NewDisk("queue"), qcfg)
	p.Prop = "C15"
	p.NoRecord = true
	if err := p.Open(); err != nil {
		e.Fail("C15", "open-failed", "creating the queue failed: %+v", err)
		return
	}
	pg := NewPQGen(p, e.Rng("qops"))
	pg.WReopen = 0
	qstep := func(op Op) {
		qOps = append(qOps, op)
		if op.K == "qmisuse" {
			m.queueCells(p)
			return
		}
		if !p.Apply(op) {
			qOps = qOps[:len(qOps)-1]
		}
	}
	if c.Tasks != nil && c.Tasks["queue"] != nil {
		for _, op := range c.Tasks["queue"] {
			if e.Failed() {
				break
			}
			qstep(op)
		}
	} else {
		qstep(Op{K: "qmisuse"}) // empty queue
		n := 10 + rng.Intn(60)
		for i := 0; i < n && !e.Failed(); i++ {
			qstep(pg.Next())
			if inject.Intn(6) == 0 && !e.Failed() {
				qstep(Op{K: "qmisuse"})
			}
		}
	}
	if !e.Failed() {
		pqFinish(e, p) // the misuse calls must not have disturbed the queue
	}
	if !e.Failed() && p.Q != nil {
		q, rd, w := p.Q, p.R, p.W
		if p.rdActive {
			rd.Done()
			p.rdActive = false
		}
		if err := q.Close(); err != nil {
			e.Fail("C15", "close-error", "Queue.Close failed: %+v", err)
		} else {
			m.closedQueueCells(q, rd, w)
		}
		p.Q = nil
	}
	p.Close()
	e.ProbeN("cells", m.cells)
	e.Res.Sig = sigOfOps(append(append([]Op{}, txOps...), qOps...), uint64(cfg.PageSize), uint64(cfg.MaxSize))
	e.Res.Nontrivial = len(states) >= 3
	e.Res.Evals = max(1, m.cells)
}

// queue misuse -------------------------------------------------------------

func (m *misuse) queueCells(p *PQ) {
	e := m.e
	q, r, w := p.Q, p.R, p.W
	if p.rdActive {
		m.cell("Reader.Begin with an active reader transaction", []error{pq.UnexpectedActiveTx}, func() error { return r.Begin() })
	} else {
		m.cell("Reader.Next without Begin", []error{pq.InactiveTx}, func() error { _, err := r.Next(); return err })
		m.cell("Reader.Read without Begin", []error{pq.InactiveTx}, func() error { _, err := r.Read(make([]byte, 8)); return err })
		m.cell("Reader.Available without Begin", []error{pq.InactiveTx}, func() error { _, err := r.Available(); return err })
		pending := p.cbFlushed - p.acked
		if pending == 0 && p.completed() == 0 {
			m.cell("ACK(1) on an empty queue", []error{pq.ACKEmptyQueue, pq.ACKTooMany}, func() error { return q.ACK(1) })
		}
		if p.completed() > 0 {
			m.cell(fmt.Sprintf("ACK(%d) with %d events pending", pending+1, pending), []error{pq.ACKTooMany, pq.ACKEmptyQueue}, func() error { return q.ACK(uint(pending + 1)) })
			m.cell(fmt.Sprintf("ACK(%d) with %d events pending", pending+1000, pending), []error{pq.ACKTooMany, pq.ACKEmptyQueue}, func() error { return q.ACK(uint(pending + 1000)) })
		}
	}
	_ = w
	e.Probe("queue_cells")
}

func (m *misuse) closedQueueCells(q *pq.Queue, r *pq.Reader, w *pq.Writer) {
	m.cell("Reader.Begin after Queue.Close", []error{pq.ReaderClosed}, func() error { return r.Begin() })
	m.cell("Reader.Next after Queue.Close", []error{pq.ReaderClosed}, func() error { _, err := r.Next(); return err })
	m.cell("Reader.Read after Queue.Close", []error{pq.ReaderClosed}, func() error { _, err := r.Read(make([]byte, 8)); return err })
	m.cell("Reader.Available after Queue.Close", []error{pq.ReaderClosed}, func() error { _, err := r.Available(); return err })
	m.cell("Writer.Write after Queue.Close", []error{pq.WriterClosed}, func() error { _, err := w.Write([]byte{1}); return err })
	m.cell("Writer.Next after Queue.Close", []error{pq.WriterClosed}, func() error { return w.Next() })
	m.cell("Writer.Flush after Queue.Close", []error{pq.WriterClosed}, func() error { return w.Flush() })
	m.cell("Queue.ACK after Queue.Close", []error{pq.QueueClosed}, func() error { return q.ACK(1) })
}
