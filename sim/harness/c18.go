package harness

import (
	"runtime"
	"errors"
	"fmt"
	"os"
	"path/filepath"
	"sync/atomic"
	"time"

	txfile "github.com/elastic/go-txfile"
	"github.com/elastic/go-txfile/txerr"

	"verifsim/simsched"
)

func init() {
	probeNames["C18"] = []string{"open_ok", "open_locked_rejected", "open_invalid_options", "open_damaged_headers", "open_truncated_file", "open_init_write_fault", "open_read_fault", "open_updmaxsize_fault", "close", "wait_lock", "two_waiters", "two_waiters_failing_first", "open_left_by_panic", "open_while_close_waits"}
	register(&PropDef{
		ID: "C18", Level: "exploration", QuickSec: 40, ThoroSec: 600,
		Rule: "each run = one seeded sequence (10-40 steps) of open / failing open / close on ONE path with two handles, on the real file system with the real flock: failing opens are produced by invalid options (rejected before the file is touched), both headers damaged, file truncated below the header size, an injected WriteAt failure during file initialisation, an injected ReadAt failure while reading the headers, and an injected WriteAt failure inside the FlagUpdMaxSize maintenance transaction (all of these fail AFTER the path lock was taken). One-bit lock model: Open succeeds iff the model says the path is free; while a handle is open every other Open without the wait flag fails with an error of kind LockFailed; after every Close and after every failed Open an immediate Open succeeds (never LockFailed); with FlagWaitLock a second goroutine's Open returns only after the holder's Close was invoked (ordered by event sequence numbers); with two waiting Opens of which the first to get the lock fails after locking, the other one gets the lock and a third plain Open fails with LockFailed; an Open that is left by a panic of the application Observer (OnOpen) releases the lock as well; while File.Close waits for an open read transaction another Open fails with LockFailed. Non-trivial = sequence containing at least one failing open that failed after taking the lock; distinct = hash of the step sequence.",
		Real: append(append([]string{}, defaultReal...), "internal/vfs/osfs (real os file, real flock on <path>.lock, real mmap)"),
		Stub: []string{"nothing is stubbed; I/O failures during Open are injected through the verif-tagged WriteAt/ReadAt shadow methods of osfs.File"},
		Assume: []string{"flock excludes two open file descriptions in one process like it excludes two processes", "the temp directory is on a local file system supporting flock and mmap"},
		FaultKinds: []string{"injected WriteAt error during initialisation", "injected ReadAt error at open", "damaged/zeroed headers", "truncated file", "invalid options"},
		NoShrink: true,
		Direct:   c18Direct,
	})
}

var errC18 = errors.New("injected os fault")

func c18Direct(c *Case) *Result {
	res := &Result{Probes: map[string]int{}, Evals: 1}
	fail := func(class, format string, args ...interface{}) *Result {
		if res.Viol == nil {
			res.Viol = &Violation{Prop: "C18", Class: class, Msg: fmt.Sprintf(format, args...)}
		}
		return res
	}
	defer func() {
		if r := recover(); r != nil && res.Viol == nil {
			res.Viol = &Violation{Prop: "C18", Class: "panic", Msg: fmt.Sprintf("panic: %v", r)}
		}
	}()
	rng := simsched.NewRand(simsched.Mix(c.Seed, 0xc18))
	dir, err := os.MkdirTemp("", "verif-c18-")
	if err != nil {
		res.Viol = &Violation{Prop: "HARNESS", Class: "tmpdir", Msg: err.Error()}
		return res
	}
	defer os.RemoveAll(dir)
	defer txfile.VerifSetOSFault(nil)
	path := filepath.Join(dir, "test.dat")
	ps := []uint32{1024, 4096}[rng.Intn(2)]
	opts := func() txfile.Options { return txfile.Options{MaxSize: 128 << 10, PageSize: ps} }
	var handles [2]*txfile.File
	holder := -1 // model: which handle holds the path (-1 free)
	exists := false
	steps := c.Tasks["main"]
	explicit := steps != nil
	n := 10 + rng.Intn(30)
	var rec []Op
	guard := func(what string, fn func()) bool {
		defer func() {
			if r := recover(); r != nil {
				fail("panic", "%s panicked: %v", what, r)
			}
		}()
		fn()
		return res.Viol != nil
	}
	isLockErr := func(err error) bool { return err != nil && txerr.Is(txfile.LockFailed, err) }
	// probe: the path must be openable right now (model says free)
	mustOpen := func(h int, after string) bool {
		var f *txfile.File
		var err error
		if guard("Open", func() { f, err = txfile.Open(path, 0o600, opts()) }) {
			return false
		}
		if err != nil {
			if isLockErr(err) {
				fail("lock-not-released", "Open right after %s fails with a lock error: %v", after, err)
			} else {
				fail("open-failed", "Open right after %s fails: %v", after, err)
			}
			return false
		}
		handles[h] = f
		holder = h
		exists = true
		res.Probes["open_ok"]++
		return true
	}
	nontrivial := false
	for i := 0; res.Viol == nil; i++ {
		var op Op
		if explicit {
			if i >= len(steps) {
				break
			}
			op = steps[i]
		} else {
			if i >= n {
				break
			}
			op = Op{K: []string{"open", "open", "close", "close", "badopts", "damage", "truncate", "initfault", "readfault", "updfault", "waitlock", "waitlock2", "panicobs", "closewait"}[rng.Intn(14)], A: rng.Intn(2), B: rng.Intn(1 << 16)}
		}
		rec = append(rec, op)
		h := op.A % 2
		switch op.K {
		case "open":
			if handles[h] != nil {
				rec = rec[:len(rec)-1]
				continue
			}
			if holder < 0 {
				mustOpen(h, "the path was free")
				continue
			}
			var f *txfile.File
			var err error
			if guard("Open", func() { f, err = txfile.Open(path, 0o600, opts()) }) {
				break
			}
			if err == nil {
				f.Close()
				fail("double-open", "a second Open succeeded while handle %d holds the file open", holder)
				break
			}
			if !isLockErr(err) {
				fail("wrong-kind", "second Open while the file is open failed with an error that is not of kind LockFailed: %v", err)
				break
			}
			res.Probes["open_locked_rejected"]++
		case "close":
			if handles[h] == nil {
				rec = rec[:len(rec)-1]
				continue
			}
			var err error
			if guard("Close", func() { err = handles[h].Close() }) {
				handles[h] = nil
				break
			}
			handles[h] = nil // a File must not be used after Close, whatever Close returned
			if err != nil {
				fail("close-error", "File.Close failed: %v", err)
				break
			}
			holder = -1
			res.Probes["close"]++
			// after Close the path can be opened again immediately
			if mustOpen(h, "Close") {
				handles[h].Close()
				handles[h], holder = nil, -1
			}
		case "badopts":
			o := opts()
			o.PageSize = 1000 // not a power of two
			var err error
			var f *txfile.File
			if guard("Open", func() { f, err = txfile.Open(path, 0o600, o) }) {
				break
			}
			if err == nil {
				f.Close()
				fail("no-error", "Open with an invalid page size succeeded")
				break
			}
			res.Probes["open_invalid_options"]++
			if holder < 0 {
				if mustOpen(h, "an Open rejected for invalid options") {
					handles[h].Close()
					handles[h], holder = nil, -1
				}
			}
		case "closewait":
			// Close waits for an open read transaction: until Close has returned the
			// File is open and the path stays locked
			if holder < 0 || op.B%3 != 0 {
				rec = rec[:len(rec)-1]
				continue
			}
			f := handles[holder]
			var rtx *txfile.Tx
			var err error
			if guard("BeginReadonly", func() { rtx, err = f.BeginReadonly() }) {
				break
			}
			if err != nil {
				fail("begin-failed", "BeginReadonly failed: %v", err)
				break
			}
			closed := make(chan error, 1)
			go func() { closed <- f.Close() }()
			time.Sleep(time.Duration(2+rng.Intn(8)) * time.Millisecond)
			select {
			case <-closed:
				fail("close-early", "File.Close returned while a read transaction was still open")
			default:
			}
			if res.Viol == nil {
				var f2 *txfile.File
				var err2 error
				guard("Open", func() { f2, err2 = txfile.Open(path, 0o600, opts()) })
				if res.Viol == nil && err2 == nil {
					f2.Close()
					fail("double-open", "Open succeeded while File.Close of the first handle was still waiting for a read transaction (the File is open until Close returns)")
				} else if res.Viol == nil && !isLockErr(err2) {
					fail("wrong-kind", "Open while the file is open failed with an error that is not of kind LockFailed: %v", err2)
				}
			}
			rtx.Close()
			select {
			case cerr := <-closed:
				if cerr != nil && res.Viol == nil {
					fail("close-error", "File.Close failed: %v", cerr)
				}
			case <-time.After(30 * time.Second):
				if res.Viol == nil {
					res.Viol = &Violation{Prop: "C18", Class: "close-hang", Msg: "File.Close did not return within 30s after the last read transaction was closed"}
				}
			}
			handles[holder], holder = nil, -1
			if res.Viol != nil {
				break
			}
			nontrivial = true
			res.Probes["open_while_close_waits"]++
			mustOpen(h, "a Close that had to wait for a read transaction")
		case "panicobs":
			// Open left by a panic (raised by the application's Observer.OnOpen):
			// the path lock must be released all the same
			if holder >= 0 || !exists || op.B%6 != 0 {
				rec = rec[:len(rec)-1]
				continue
			}
			o := opts()
			o.Observer = panicObserver{}
			panicked := false
			func() {
				defer func() {
					if r := recover(); r != nil {
						panicked = true
					}
				}()
				f, err := txfile.Open(path, 0o600, o)
				if err == nil {
					f.Close()
				}
			}()
			if !panicked {
				fail("harness", "the panicking observer was not called")
				break
			}
			nontrivial = true
			res.Probes["open_left_by_panic"]++
			if mustOpen(h, "an Open that was left by a panic of the application's Observer.OnOpen") {
				handles[h].Close()
				handles[h], holder = nil, -1
			}
		case "damage", "truncate", "readfault", "updfault":
			if holder >= 0 || !exists {
				rec = rec[:len(rec)-1]
				continue
			}
			orig, rerr := os.ReadFile(path)
			if rerr != nil {
				res.Viol = &Violation{Prop: "HARNESS", Class: "io", Msg: rerr.Error()}
				break
			}
			o := opts()
			what := ""
			switch op.K {
			case "damage":
				bad := append([]byte(nil), orig...)
				for _, off := range []int{0, int(ps)} {
					for j := 0; j < 84; j++ {
						bad[off+j] ^= byte(op.B>>uint(j%8)) | 1
					}
				}
				os.WriteFile(path, bad, 0o600)
				what = "an Open that failed on two damaged headers"
				res.Probes["open_damaged_headers"]++
			case "truncate":
				os.WriteFile(path, orig[:1+op.B%83], 0o600)
				what = "an Open that failed on a truncated file"
				res.Probes["open_truncated_file"]++
			case "readfault":
				k := op.B % 2
				cnt := 0
				txfile.VerifSetOSFault(func(o string, off int64) error {
					if o == "read" {
						cnt++
						if cnt-1 == k {
							return errC18
						}
					}
					return nil
				})
				what = "an Open that failed on a read error"
				res.Probes["open_read_fault"]++
			case "updfault":
				o.Flags |= txfile.FlagUpdMaxSize
				o.MaxSize = 256 << 10
				txfile.VerifSetOSFault(func(o string, off int64) error {
					if o == "write" {
						return errC18
					}
					return nil
				})
				what = "an Open with FlagUpdMaxSize that failed on a write error"
				res.Probes["open_updmaxsize_fault"]++
			}
			var f *txfile.File
			var err error
			pan := guard("Open", func() { f, err = txfile.Open(path, 0o600, o) })
			txfile.VerifSetOSFault(nil)
			os.WriteFile(path, orig, 0o600)
			if pan {
				break
			}
			if err == nil {
				f.Close()
				if op.K == "updfault" {
					// max size was already the requested one: nothing was written
					continue
				}
				fail("no-error", "%s: Open succeeded", what)
				break
			}
			nontrivial = true
			if mustOpen(h, what) {
				handles[h].Close()
				handles[h], holder = nil, -1
			}
		case "initfault":
			if holder >= 0 {
				rec = rec[:len(rec)-1]
				continue
			}
			// new file: initialisation fails on its first write
			p2 := filepath.Join(dir, fmt.Sprintf("new-%d.dat", i))
			txfile.VerifSetOSFault(func(o string, off int64) error {
				if o == "write" {
					return errC18
				}
				return nil
			})
			var f *txfile.File
			var err error
			pan := guard("Open", func() { f, err = txfile.Open(p2, 0o600, opts()) })
			txfile.VerifSetOSFault(nil)
			if pan {
				break
			}
			if err == nil {
				f.Close()
				fail("no-error", "Open succeeded although initialising the new file failed")
				break
			}
			nontrivial = true
			res.Probes["open_init_write_fault"]++
			os.Remove(p2) // keep the (empty) lock file: only the lock matters
			guard("Open", func() { f, err = txfile.Open(p2, 0o600, opts()) })
			if res.Viol != nil {
				break
			}
			if err != nil {
				if isLockErr(err) {
					fail("lock-not-released", "Open right after an Open that failed while initialising the file fails with a lock error: %v", err)
				} else {
					fail("open-failed", "Open right after an Open that failed while initialising the file fails: %v", err)
				}
				break
			}
			f.Close()
		case "waitlock2":
			// two goroutines wait for the path: one whose Open fails after it got the
			// lock (injected read failure, keyed by goroutine), one that succeeds
			if holder < 0 || handles[1-holder] != nil {
				rec = rec[:len(rec)-1]
				continue
			}
			var failID int64
			txfile.VerifSetOSFault(func(o string, off int64) error {
				if o == "read" && goidC18() == atomic.LoadInt64(&failID) {
					return errC18
				}
				return nil
			})
			o := opts()
			o.Flags |= txfile.FlagWaitLock
			type openRes struct {
				f   *txfile.File
				err error
			}
			doneA, doneB := make(chan openRes, 1), make(chan openRes, 1)
			startA := func() {
				go func() {
					atomic.StoreInt64(&failID, goidC18())
					f, err := txfile.Open(path, 0o600, o)
					doneA <- openRes{f, err}
				}()
			}
			startB := func() {
				go func() {
					f, err := txfile.Open(path, 0o600, o)
					doneB <- openRes{f, err}
				}()
			}
			pause := func() { time.Sleep(time.Duration(2+rng.Intn(8)) * time.Millisecond) }
			if op.B%2 == 0 {
				startA()
				pause()
				startB()
			} else {
				startB()
				pause()
				startA()
			}
			pause()
			early := func(r openRes, who string) {
				if r.err == nil {
					r.f.Close()
				}
				fail("wait-lock", "Open with FlagWaitLock (%s) returned (%v) while handle %d still holds the file open", who, r.err, holder)
			}
			select {
			case r := <-doneA:
				early(r, "the waiter whose open fails later")
			case r := <-doneB:
				early(r, "the second waiter")
			default:
			}
			if res.Viol != nil {
				txfile.VerifSetOSFault(nil)
				break
			}
			cerr := handles[holder].Close()
			handles[holder], holder = nil, -1
			if cerr != nil {
				txfile.VerifSetOSFault(nil)
				fail("close-error", "File.Close failed: %v", cerr)
				break
			}
			var rb openRes
			select {
			case rb = <-doneB:
			case <-time.After(30 * time.Second):
				res.Viol = &Violation{Prop: "C18", Class: "wait-lock-hang", Msg: "Open with FlagWaitLock did not return within 30s after the holder closed the file (a second waiter's Open fails after taking the lock)"}
			}
			if res.Viol != nil {
				break
			}
			if rb.err != nil {
				txfile.VerifSetOSFault(nil)
				fail("wait-lock", "Open with FlagWaitLock failed after the holder closed the file: %v", rb.err)
				break
			}
			aFirst := false
			select {
			case ra := <-doneA:
				aFirst = true
				doneA <- ra
			default:
			}
			// the second waiter's File is open now: the path must be locked
			var fc *txfile.File
			var errc error
			guard("Open", func() { fc, errc = txfile.Open(path, 0o600, opts()) })
			if res.Viol == nil && errc == nil {
				fc.Close()
				fail("double-open", "Open succeeded while the File returned to a waiting Open is open (another waiter's Open failed after taking the lock: %v)", aFirst)
			} else if res.Viol == nil && !isLockErr(errc) {
				fail("wrong-kind", "Open while the file is open failed with an error that is not of kind LockFailed: %v", errc)
			}
			rb.f.Close()
			select {
			case ra := <-doneA:
				if ra.err == nil {
					ra.f.Close()
					if res.Viol == nil {
						fail("no-error", "Open succeeded although reading the file headers failed")
					}
				}
			case <-time.After(30 * time.Second):
				if res.Viol == nil {
					res.Viol = &Violation{Prop: "C18", Class: "wait-lock-hang", Msg: "Open with FlagWaitLock did not return within 30s after the holder closed the file"}
				}
			}
			txfile.VerifSetOSFault(nil)
			if res.Viol != nil {
				break
			}
			nontrivial = true
			res.Probes["two_waiters"]++
			if aFirst {
				res.Probes["two_waiters_failing_first"]++
			}
			mustOpen(h, "two waiting Opens (one failed after taking the lock) finished and the file was closed")
		case "waitlock":
			if holder < 0 || handles[1-holder] != nil {
				rec = rec[:len(rec)-1]
				continue
			}
			var seq int64
			var openRet, closeInv int64
			done := make(chan error, 1)
			o := opts()
			o.Flags |= txfile.FlagWaitLock
			var f2 *txfile.File
			go func() {
				f, err := txfile.Open(path, 0o600, o)
				openRet = atomic.AddInt64(&seq, 1)
				f2 = f
				done <- err
			}()
			time.Sleep(time.Duration(1+rng.Intn(4)) * time.Millisecond)
			select {
			case err := <-done:
				if err == nil {
					f2.Close()
				}
				fail("wait-lock", "Open with FlagWaitLock returned (%v) while handle %d still holds the file open", err, holder)
			default:
			}
			if res.Viol != nil {
				break
			}
			closeInv = atomic.AddInt64(&seq, 1)
			cerr := handles[holder].Close()
			handles[holder] = nil
			if cerr != nil {
				fail("close-error", "File.Close failed: %v", cerr)
				break
			}
			select {
			case err := <-done:
				if err != nil {
					fail("wait-lock", "Open with FlagWaitLock failed after the holder closed the file: %v", err)
					break
				}
				if openRet < closeInv {
					fail("wait-lock", "Open with FlagWaitLock returned before the holder's Close was invoked")
				}
				holder = 1 - holder
				handles[holder] = f2
				res.Probes["wait_lock"]++
			case <-time.After(30 * time.Second):
				res.Viol = &Violation{Prop: "C18", Class: "wait-lock-hang", Msg: "Open with FlagWaitLock did not return within 30s after the holder closed the file"}
			}
		}
	}
	for _, f := range handles {
		if f != nil {
			func() {
				defer func() { recover() }()
				f.Close()
			}()
		}
	}
	c.Tasks = map[string][]Op{"main": rec}
	h := uint64(17)
	for _, op := range rec {
		h = simsched.Mix(h, fnv64(op.K), uint64(op.A))
	}
	res.Sig = h
	res.SchedHash = h
	res.Nontrivial = nontrivial
	return res
}

func goidC18() int64 {
	var buf [64]byte
	n := runtime.Stack(buf[:], false)
	var id int64
	for _, c := range buf[10:n] {
		if c < '0' || c > '9' {
			break
		}
		id = id*10 + int64(c-'0')
	}
	return id
}

// panicObserver panics when the file reports that it was opened.
type panicObserver struct{}

func (panicObserver) OnOpen(txfile.FileStats)                    { panic("observer: OnOpen failed") }
func (panicObserver) OnTxBegin(bool)                             {}
func (panicObserver) OnTxClose(txfile.FileStats, txfile.TxStats) {}
