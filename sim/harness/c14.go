package harness

import (
	"fmt"

	txfile "github.com/elastic/go-txfile"

	"verifsim/simdisk"
)

func init() {
	probeNames["C14"] = []string{"grow", "shrink", "to_unbounded", "from_unbounded", "equal", "below_usage", "prealloc", "wal_mapping_live", "free_region_at_end", "release_regions_tx", "crash_image_in_reopen", "later_plain_open", "commit_ok", "out_of_memory", "overflow_pages_at_size_change", "second_size_change", "run_truncated_at_deadline"}
	register(&PropDef{
		ID: "C14", Level: "exploration", QuickSec: 50, ThoroSec: 900,
		Rule: "each run = seeded prior txops history (live WAL overwrite mappings, free regions at the file end; a quarter of the bounded runs with the overflow area enabled and the file filled up, so that metadata sits past the limit; those runs have no extent oracle and end early if their crash-image enumeration is cut by the batch deadline), then Close and Open with FlagUpdMaxSize for a drawn (old max, new max, prealloc) combination: old in {unbounded, 64KiB..512KiB} x new in {unbounded, smaller, equal, larger, below current usage}, then a further history, then a plain open. Oracles: model check right after the open (root and every live page), lock state idle and Begin/BeginReadonly return (scheduler deadlock detection), growing a bounded file makes exactly newMaxPages-oldMaxPages more pages allocatable (capacity probe), after shrinking the simulated file never extends beyond max(extent before, new limit), the file keeps working, a later plain open reports the new limit; crash images at every I/O boundary inside the size-changing open recover all contents with the old or the new limit. Non-trivial = the open actually changed the limit; distinct = op list + (old,new,prealloc) + schedule hash.",
		Real: defaultReal, Stub: defaultStub, Assume: defaultAssume,
		FaultKinds: []string{"crash at every I/O boundary of the size-changing open", "lost un-synced writes"},
		Body: c14Body,
	})
}

func c14Body(e *Env) {
	c := e.Case
	rng := e.Rng("c14")
	if c.Cfg == nil {
		cfg := DrawCfg(e.Rng("cfg"), 0)
		cfg.NTx = 2 + rng.Intn(8)
		cfg.Variant = 1 + rng.Intn(5) // 1 unbounded, 2 smaller, 3 equal, 4 larger, 5 below usage
		cfg.Prealloc = rng.Intn(3) == 0
		cfg.Mix = []string{"balanced", "overwrite", "alloc", "fragment", "big"}[rng.Intn(5)]
		cfg.Overflow = false
		if cfg.MaxSize > 0 && rng.Intn(4) == 0 {
			// transactions may use the overflow area: metadata pages past the limit
			// exist when the limit changes (no extent oracle in these runs)
			cfg.Overflow = true
			cfg.MaxSize = (64 << 10) << uint(rng.Intn(2))
			cfg.PageSize = []int{1024, 4096}[rng.Intn(2)]
			cfg.InitMeta = rng.Intn(3)
			cfg.Mix = []string{"big", "alloc", "fragment"}[rng.Intn(3)]
			cfg.NTx = 4 + rng.Intn(8)
			if rng.Intn(2) == 0 {
				cfg.Variant = 4
			}
		}
		if rng.Intn(3) == 0 {
			cfg.Variant2 = 1 + rng.Intn(5)
			cfg.Prealloc2 = rng.Intn(2) == 0
		}
		c.Cfg = &cfg
	}
	cfg := *c.Cfg
	d := e.NewDisk("file")
	r := NewRunner(e, d, cfg)
	var explicit1, explicit2 []Op
	if c.Tasks != nil {
		explicit1, explicit2 = c.Tasks["main"], c.Tasks["after"]
		if explicit1 == nil {
			explicit1 = []Op{}
		}
		if explicit2 == nil {
			explicit2 = []Op{}
		}
	}
	if err := r.Open(); err != nil {
		e.Fail("C14", "open-failed", "creating the file failed: %v", err)
		return
	}
	defer func() {
		if r.F != nil {
			r.Close()
		}
	}()
	g := NewGen(r, e.Rng("ops"), cfg.Mix)
	g.NoOverflow = !cfg.Overflow
	runHistory(e, r, g, explicit1, cfg.NTx, "C03", nil)
	if r.InTx() && !e.Failed() {
		r.Apply(Op{K: "rollback"})
	}
	if cfg.Overflow && explicit1 == nil && !e.Failed() && rng.Intn(4) > 0 {
		// fill the file, then commit overwrites: the write-ahead pages, the mapping
		// and the free list have to go to the overflow area past the limit
		{
			// (allocfill computes the allocatable pages from the allocator snapshot: no
			// extra transaction that a replay of the recorded operations would lack)
			fill := []Op{{K: "begin", A: 1}, {K: "allocfill", A: rng.Intn(3)}}
			fill = append(fill, Op{K: "commit"}, Op{K: "begin", A: 1})
			for i, m := 0, 1+rng.Intn(6)*rng.Intn(8); i < m; i++ {
				fill = append(fill, Op{K: []string{"setfull", "setfull", "setpart", "free"}[rng.Intn(4)], A: rng.Intn(1 << 20)})
			}
			fill = append(fill, Op{K: "commit"})
			for _, op := range fill {
				if e.Failed() {
					break
				}
				e.Guard("C03", fmt.Sprintf("operation %v", op), func() { r.Apply(op) })
				e.Yield("op")
			}
			if r.InTx() && !e.Failed() {
				r.Apply(Op{K: "rollback"})
			}
		}
	}
	ops1 := r.Ops
	r.Ops = nil
	defer func() { c.Tasks = map[string][]Op{"main": ops1, "after": r.Ops} }()
	if e.Failed() {
		return
	}

	// --- the size changing open(s)
	var extentBefore int64
	var ps int
	var err error
	var what string
	var newMaxRounded int
	firstOld := cfg.MaxSize
	truncated := false
	changeSize := func(variant int, pNew *int, prealloc bool) bool {
	oldMax := r.Cfg.MaxSize
	ps = cfg.PageSize
	snap := txfile.VerifAllocSnapshot(r.F)
	usedBytes := int(snap.DataEnd) * ps
	if int(snap.MetaEnd)*ps > usedBytes {
		usedBytes = int(snap.MetaEnd) * ps
	}
	if len(snap.WALMapping) > 0 {
		e.Probe("wal_mapping_live")
	}
	overflowPages := 0
	if oldMax > 0 && int(snap.MetaEnd) > oldMax/ps {
		overflowPages = int(snap.MetaEnd) - oldMax/ps
		if int(snap.DataEnd) <= oldMax/ps {
			e.Probe("overflow_pages_at_size_change")
		}
	}
	if n := len(snap.DataFree); n > 0 && snap.DataFree[n-1].ID+PageID(snap.DataFree[n-1].Count) == snap.DataEnd {
		e.Probe("free_region_at_end")
	}
	newMax := *pNew
	if !c.Explicit || newMax == 0 && variant != 1 {
		switch variant {
		case 1:
			newMax = 0
		case 2:
			base := oldMax
			if base == 0 {
				base = 512 << 10
			}
			newMax = max(64<<10, base/2)
		case 3:
			newMax = oldMax
		case 4:
			newMax = max(oldMax, 64<<10) + (1+rng.Intn(4))*(32<<10)
		case 5:
			newMax = max(64<<10, (usedBytes/2/ps)*ps)
		}
		if rng.Intn(4) == 0 && newMax > 0 {
			newMax += 100 // not a multiple of the page size: rounded down
		}
		*pNew = newMax
	}
	var capBefore int
	if oldMax > 0 {
		var err error
		capBefore, err = capacityProbe(r, 1<<20)
		if err != nil {
			e.Fail("C14", "probe", "capacity probe failed: %v", err)
			return false
		}
	}
	if err := r.E.CloseFile(r.F); err != nil {
		e.Fail("C14", "close-error", "File.Close failed: %v", err)
		return false
	}
	r.F = nil
	initImg := d.Snapshot()
	logStart := len(d.Log)
	// extent = physical size or allocated area (pages may be allocated but not written yet)
	extentBefore = int64(len(d.Content()))
	if int64(usedBytes) > extentBefore {
		extentBefore = int64(usedBytes)
	}
	d.ExtentMax = int64(len(d.Content()))
	o := r.Options()
	o.Flags |= txfile.FlagUpdMaxSize
	o.MaxSize = uint64(newMax)
	o.Prealloc = prealloc
	o.InitMetaArea = 0 // creation-time option; would only make Options.Validate reject small limits
	if e.Guard("C14", "Open with FlagUpdMaxSize", func() { err = r.OpenWith(o) }) {
		return false
	}
	what = fmt.Sprintf("open with FlagUpdMaxSize (max size %d -> %d, prealloc=%v)", oldMax, newMax, prealloc)
	if err != nil {
		e.Fail("C14", "reopen-error", "%s failed: %v", what, err)
		return false
	}
	newMaxRounded = newMax / ps * ps
	r.Cfg.MaxSize = newMaxRounded
	switch {
	case newMaxRounded == oldMax:
		e.Probe("equal")
	case newMax == 0:
		e.Probe("to_unbounded")
	case oldMax == 0:
		e.Probe("from_unbounded")
	case newMaxRounded > oldMax:
		e.Probe("grow")
	default:
		e.Probe("shrink")
	}
	if newMax > 0 && newMaxRounded < usedBytes {
		e.Probe("below_usage")
	}
	if prealloc {
		e.Probe("prealloc")
	}
	e.Res.Nontrivial = newMaxRounded != oldMax
	logEnd := len(d.Log)
	r.Cur().TxID = txfile.VerifHeaderSnapshot(r.F).TxID
	r.CheckLocksIdle("right after " + what)
	r.VerifyAll("right after " + what) // BeginReadonly must not block
	if e.Failed() {
		return false
	}
	// Begin must not block either; growing adds exactly the new pages
	capAfter, perr := capacityProbe(r, 1<<20)
	if perr != nil {
		e.Fail("C14", "probe", "%s: write transaction failed: %v", what, perr)
		return false
	}
	// (only if the file was within its old limit: after an earlier shrink below
	// the space in use the first additional pages only make up for the excess)
	if oldMax > 0 && newMaxRounded > oldMax && (usedBytes <= oldMax || int(snap.DataEnd)*ps <= oldMax && newMaxRounded >= usedBytes) {
		// metadata pages in the overflow area (past the old limit) are in use
		// already: they are not among the pages that become allocatable
		want := (newMaxRounded-oldMax)/ps - overflowPages
		if capAfter-capBefore != want {
			e.Fail("C14", "grow-capacity", "%s: %d pages were allocatable before and %d after, expected exactly %d additional pages", what, capBefore, capAfter, want)
			return false
		}
	}
	r.CheckPartition()
	if e.Failed() {
		return false
	}
	if after := txfile.VerifAllocSnapshot(r.F); after.DataEnd < snap.DataEnd || after.MetaEnd < snap.MetaEnd {
		e.Probe("release_regions_tx") // the open released free regions beyond the new limit
	}

	// --- crash images inside the size-changing open
	if logEnd > logStart {
		plan := CrashPlan{From: 0, MaxExh: 5, NRandom: 6, PageSize: ps, Tear: true, Rng: e.Rng("crash"), Only: c.Crash, Stop: func() bool { return e.Failed() || outOfTime() }}
		seg := d.Log[logStart:logEnd]
		cur := r.Cur()
		n := 0
		EnumerateCrashes(seg, initImg, plan, func(k int, ch *CrashChoice, np int, img []byte) {
			n++
			e.Probe("crash_image_in_reopen")
			d2 := simdisk.NewFromImage("image", e.S, img)
			d2.YieldIO, d2.LogData = false, false
			r2 := NewRunner(e, d2, cfg)
			r2.AsProp = "C14"
			r2.Cfg.MaxSize = 0
			desc := fmt.Sprintf("crash before I/O #%d of the %s, kept %v of %d pending", k, what, ch.Keep, np)
			var err error
			if e.Guard("C14", "Open of "+desc, func() { err = r2.OpenWith(txfile.Options{Observer: r2.obs}) }) {
				c.Crash = ch
				return
			}
			if err != nil {
				e.Fail("C14", "crash-open-failed", "%s: Open fails: %v", desc, err)
				c.Crash = ch
				return
			}
			r2.Hist = []*State{cur}
			r2.VerifyAll(desc)
			if got := int(r2.LastStats.MaxSize); got != oldMax && got != newMaxRounded && !e.Failed() {
				e.Fail("C14", "crash-limit", "%s: recovered file reports max size %d, neither the old (%d) nor the new (%d) limit", desc, got, oldMax, newMaxRounded)
			}
			if e.Failed() && c.Crash == nil {
				c.Crash = ch
			}
			r2.E.CloseFile(r2.F)
		})
		e.Res.Evals += n
	}
	if e.Failed() || c.Crash != nil {
		return false
	}
	if outOfTime() {
		// the enumeration was cut short by the batch deadline: the rest of this
		// run would not be reproducible from its seed (a replay enumerates
		// everything, which shifts the identities of later goroutines)
		e.Probe("run_truncated_at_deadline")
		truncated = true
		return false
	}

	return true
	}
	if !changeSize(cfg.Variant, &c.Cfg.NewMaxSize, cfg.Prealloc) {
		if truncated {
			e.Res.Sig = sigOf(r, uint64(ps), uint64(firstOld), 0, 0, fnv64(fmt.Sprint(ops1)))
		}
		return
	}
	if c.Cfg.Variant2 > 0 && c.Crash == nil {
		// a second size change directly on top of the first one
		e.Probe("second_size_change")
		firstExtent := extentBefore
		if !changeSize(c.Cfg.Variant2, &c.Cfg.NewMaxSize2, c.Cfg.Prealloc2) {
			return
		}
		if firstExtent > extentBefore {
			extentBefore = firstExtent
		}
	}
	oldMax := firstOld
	_ = oldMax
	// --- further history on the reopened file
	g2 := NewGen(r, e.Rng("ops2"), cfg.Mix)
	g2.NoOverflow = !cfg.Overflow
	g2.NoReopen = true
	runHistory(e, r, g2, explicit2, 2+cfg.NTx/2, "C14", nil)
	if r.InTx() && !e.Failed() {
		r.Apply(Op{K: "rollback"})
	}
	if e.Failed() {
		return
	}
	if newMaxRounded > 0 && (oldMax == 0 || newMaxRounded < oldMax) && !cfg.Overflow {
		limit := extentBefore
		if int64(newMaxRounded) > limit {
			limit = int64(newMaxRounded)
		}
		if d.ExtentMax > limit {
			e.Fail("C14", "shrink-extent", "%s: the file later extended to %d bytes, beyond max(previous extent %d, new limit %d)", what, d.ExtentMax, extentBefore, newMaxRounded)
			return
		}
	}
	// --- a later plain open reports the new limit
	if err := r.E.CloseFile(r.F); err != nil {
		e.Fail("C14", "close-error", "File.Close failed: %v", err)
		return
	}
	r.F = nil
	if e.Guard("C14", "plain Open", func() { err = r.OpenWith(txfile.Options{Observer: r.obs}) }) {
		return
	}
	if err != nil {
		e.Fail("C14", "reopen-error", "plain open after %s failed: %v", what, err)
		return
	}
	e.Probe("later_plain_open")
	if got := int(r.LastStats.MaxSize); got != newMaxRounded {
		e.Fail("C14", "limit-not-persisted", "after %s a later plain open reports max size %d, expected %d", what, got, newMaxRounded)
		return
	}
	r.VerifyAll("after the later plain open")
	r.CheckPartition()
	e.Res.Sig = sigOf(r, uint64(ps), uint64(oldMax), uint64(newMaxRounded), uint64(c.Cfg.Variant2), fnv64(fmt.Sprint(ops1)))
}
