package harness

import (
	"os"
	"bytes"
	"fmt"
	"sort"
	"strings"

	txfile "github.com/elastic/go-txfile"
	"github.com/elastic/go-txfile/txerr"

	"verifsim/simdisk"
	"verifsim/simsched"
)

// Runner executes txfile workload operations against the real engine and the
// reference model in lock step.
type Runner struct {
	E    *Env
	D    *simdisk.Disk
	F    *txfile.File
	Cfg  Cfg
	Name string // task name prefix used for observations

	Hist []*State // committed states, last one is current
	// CommitLog holds, per user commit attempt, the op-log indices of its begin/end markers
	Commits []CommitRec

	tx       *txfile.Tx
	txPages  map[PageID]*pgState
	txRoot   PageID
	txFreed  map[PageID]bool
	txDirtyUnknown bool // flush state unknown after a failed Tx.Flush
	txDataEnd PageID // data end marker when the transaction began
	txOOM     bool   // an allocation failed in the running transaction
	ver      uint32

	Ops   []Op // executed operations (recorded)
	Faulty bool // I/O faults may be injected: relaxed oracles for errors

	LastStats   txfile.FileStats
	StatsSeen   bool
	obs         *recObserver
	NoPostCheck bool // skip the verifyAll after each transaction
	CheckCover  bool // run the C11 coverage check after each transaction
	OnCommitted func(st *State)
	// optional hook called between two operations of a transaction
	Between func()
	// AsProp, if set, re-labels state/partition violations found by this runner
	// (used when the runner verifies a recovered or derived file).
	AsProp      string
	AfterCreate func()
	// concurrency support
	SkipLocksIdle bool         // other transactions may be open: skip the idle-lock check
	MultiWriter   bool         // several writer tasks share this runner (Begin blocks)
	NoRecord      bool         // tasks record their operations themselves
	ReadOpened    func()       // VerifyAll opened its read transaction
	ReadClosed    func()       // VerifyAll closed its read transaction
	Outcome       []string     // observable outcomes of operations (twin comparison)
	VerAtBegin    uint32       // content version counter when the running transaction began
	OnQuiescent   func(when string) // called at quiescent points (after transactions, after reopen)
	TxActiveSlot  int               // active header slot when the running transaction began
	ReopenFn      func()            // replaces the default close+open+verify of the "reopen" operation
	// the most recently finished write transaction (for misuse checks)
	LastTx    *txfile.Tx
	LastPages []*txfile.Page
	LastEnd   string
	OnCommitResult func(rec *CommitRec, err error) // called right after Commit returned
	txOOMSeen     bool
	OnTxEnd       func()       // called right after a write transaction ended (before post checks)
	BeforeEnd     func()       // called right before Commit/Rollback/Close is invoked
}

func (r *Runner) out(format string, args ...interface{}) {
	r.Outcome = append(r.Outcome, fmt.Sprintf(format, args...))
}

// fail records a violation, relabelled if AsProp is set.
func (r *Runner) fail(prop, class, format string, args ...interface{}) {
	if r.AsProp != "" {
		prop = r.AsProp
	}
	r.E.Fail(prop, class, format, args...)
}

// CommitRec describes one commit attempt of the history.
type CommitRec struct {
	InvSeq, RetSeq uint64 // global event sequence numbers of Commit's invocation and return
	Begin, End int // op-log indices of the markers (End = -1 while running)
	OK         bool
	State      *State // state that this commit produces (also for failed ones: the attempted state)
	Prev       *State
}

type recObserver struct {
	r *Runner
}

func (o *recObserver) OnOpen(s txfile.FileStats)  { o.r.LastStats, o.r.StatsSeen = s, true }
func (o *recObserver) OnTxBegin(readonly bool)    {}
func (o *recObserver) OnTxClose(s txfile.FileStats, tx txfile.TxStats) {
	if !tx.Readonly && tx.Commit {
		o.r.LastStats = s
	}
}

func NewRunner(e *Env, d *simdisk.Disk, cfg Cfg) *Runner {
	r := &Runner{E: e, D: d, Cfg: cfg}
	r.obs = &recObserver{r}
	r.Hist = []*State{{Pages: map[PageID][]byte{}}}
	return r
}

func (r *Runner) Cur() *State { return r.Hist[len(r.Hist)-1] }

func (r *Runner) Options() txfile.Options {
	o := txfile.Options{
		MaxSize:      uint64(r.Cfg.MaxSize),
		PageSize:     uint32(r.Cfg.PageSize),
		InitMetaArea: uint32(r.Cfg.InitMeta),
		Prealloc:     r.Cfg.Prealloc,
		Sync:         txfile.SyncMode(r.Cfg.SyncMode),
		Observer:     r.obs,
	}
	return o
}

// Open opens (or creates) the file on the runner's disk.
func (r *Runner) Open() error {
	return r.OpenWith(r.Options())
}

func (r *Runner) OpenWith(o txfile.Options) error {
	// mirror txfile.Open: take the path lock first, release it when opening fails
	if err := r.D.Lock(true, false); err != nil {
		return err
	}
	f, err := r.E.OpenFile(r.D, o)
	if err != nil {
		if r.D.Unlock() != nil {
			r.D.ForceUnlock() // injected unlock failure: see C08
		}
		return err
	}
	r.F = f
	h := txfile.VerifHeaderSnapshot(f)
	r.Cur().TxID = h.TxID
	// let the new File's writer goroutine register with the scheduler before
	// anything else is started (deterministic goroutine names)
	r.E.Yield("opened")
	return nil
}

// OpenRaw opens the file without touching the model (txid of the current state is kept).
func (r *Runner) OpenRaw() error { return r.OpenRawWith(r.Options()) }

// OpenRawWith is OpenRaw with explicit options.
func (r *Runner) OpenRawWith(o txfile.Options) error {
	if err := r.D.Lock(true, false); err != nil {
		return err
	}
	f, err := r.E.OpenFile(r.D, o)
	if err != nil {
		if r.D.Unlock() != nil {
			r.D.ForceUnlock() // injected unlock failure: see C08
		}
		return err
	}
	r.F = f
	r.E.Yield("opened")
	return nil
}

func (r *Runner) InTx() bool { return r.tx != nil }

func (r *Runner) txOptions(op Op) txfile.TxOptions {
	o := txfile.TxOptions{WALLimit: uint(r.Cfg.WALLimit), MetaAreaGrowPercentage: r.Cfg.GrowPct}
	if op.A == 1 || r.Cfg.Overflow {
		o.EnableOverflowArea = true
	}
	return o
}

// live returns the ids of all pages visible in the current write transaction.
func (r *Runner) live() []PageID {
	cur := r.Cur()
	ids := make([]PageID, 0, len(cur.Pages)+8)
	for id := range cur.Pages {
		if !r.txFreed[id] {
			ids = append(ids, id)
		}
	}
	for id, p := range r.txPages {
		if p.isNew && !p.freed {
			ids = append(ids, id)
		}
	}
	sort.Slice(ids, func(i, j int) bool { return ids[i] < ids[j] })
	return ids
}

func (r *Runner) page(id PageID) (*pgState, error) {
	if p := r.txPages[id]; p != nil {
		return p, nil
	}
	h, err := r.tx.Page(id)
	if err != nil {
		return nil, err
	}
	c := r.Cur().Pages[id]
	p := &pgState{id: id, h: h, known: c != nil, content: c}
	r.txPages[id] = p
	return p, nil
}

func pick(ids []PageID, i int) PageID {
	if i < 0 {
		i = -i
	}
	return ids[i%len(ids)]
}

func (r *Runner) filter(f func(p *pgState, committed bool) bool) []PageID {
	var out []PageID
	for _, id := range r.live() {
		p := r.txPages[id]
		if p == nil {
			p = &pgState{id: id, known: r.Cur().Pages[id] != nil}
		}
		if f(p, !p.isNew) {
			out = append(out, id)
		}
	}
	return out
}

func isKind(err error, k error) bool { return err != nil && txerr.Is(k, err) }

// expectErr classifies an error of a regular (non misuse) operation.
// Returns true if the error is acceptable.
func (r *Runner) errOK(err error, what string) bool {
	if err == nil {
		return true
	}
	if isKind(err, txfile.OutOfMemory) {
		if r.Cfg.MaxSize == 0 {
			r.E.Fail("C03", "unexpected-error", "%s reports out of memory on an unbounded file: %v", what, err)
			return false
		}
		r.E.Probe("out_of_memory")
		return true
	}
	if r.Faulty {
		return true
	}
	if r.Cfg.MaxSize > 0 && what == "Commit" && strings.Contains(fmt.Sprintf("%+v", err), "failed to flush dirty pages") {
		// tryCommitChanges drops the cause (always OutOfMemory from doFlush: no
		// WAL page available) when flushing fails; out of space on a bounded file
		r.E.Probe("out_of_memory")
		return true
	}
	r.E.Fail("C03", "unexpected-error", "%s failed without any injected fault: %+v", what, err)
	return false
}

var debugOps = os.Getenv("VERIF_DEBUG_OPS") != ""

// Apply executes one operation. Returns false if the operation was not
// applicable in the current state (it is skipped then).
func (r *Runner) Apply(op Op) bool {
	if r.E.Failed() {
		return false
	}
	if r.NoRecord {
		return r.apply(op)
	}
	// record first, so that an operation that panics is part of the history
	r.Ops = append(r.Ops, op)
	ok := r.apply(op)
	if debugOps {
		if f, err := os.OpenFile(os.Getenv("VERIF_DEBUG_OPS"), os.O_APPEND|os.O_CREATE|os.O_WRONLY, 0o644); err == nil {
			fmt.Fprintf(f, "OP %v applied=%v log=%d lastEnd=%s steps=%d\n", op, ok, len(r.D.Log), r.LastEnd, r.E.S.Steps())
			f.Close()
		}
	}
	if !ok {
		r.Ops = r.Ops[:len(r.Ops)-1]
	}
	return ok
}

func (r *Runner) apply(op Op) bool {
	e := r.E
	ps := r.Cfg.PageSize
	switch op.K {
	case "begin":
		if (r.tx != nil && !r.MultiWriter) || r.F == nil {
			return false
		}
		tx, err := r.F.BeginWith(r.txOptions(op))
		if err != nil {
			e.Fail("C09", "begin-failed", "Begin failed: %v", err)
			return true
		}
		if r.tx != nil {
			e.Fail("C09", "two-writers", "Begin returned a second write transaction while another write transaction is still active")
			return true
		}
		r.tx = tx
		r.txPages = map[PageID]*pgState{}
		r.txFreed = map[PageID]bool{}
		r.txRoot = r.Cur().Root
		r.txDirtyUnknown = false
		r.txOOM = false
		r.TxActiveSlot = txfile.VerifHeaderSnapshot(r.F).Active
		r.VerAtBegin = r.ver
		r.txDataEnd = txfile.VerifAllocSnapshot(r.F).DataEnd
		if got := tx.Root(); got != r.txRoot {
			e.Fail("C03", "root-mismatch", "new write transaction sees root %d, expected %d", got, r.txRoot)
		}
		return true

	case "alloc", "allocn", "allocfill":
		if r.tx == nil || r.txDirtyUnknown {
			return false
		}
		n := 1
		if op.K == "allocfill" {
			// allocate the data area up to the brim (A = pages to leave unallocated)
			if r.Cfg.MaxSize == 0 {
				return false
			}
			snap := txfile.VerifAllocSnapshot(r.F)
			n = -op.A
			for _, reg := range snap.DataFree {
				n += int(reg.Count)
			}
			if mp := r.Cfg.MaxSize / ps; int(snap.DataEnd) < mp {
				n += mp - int(snap.DataEnd)
			}
			if n < 1 {
				return false
			}
			op.K = "allocn"
		} else if op.K == "allocn" {
			n = op.A
			if n < 1 {
				n = 1
			}
		}
		var pages []*txfile.Page
		var err error
		if op.K == "alloc" {
			var p *txfile.Page
			p, err = r.tx.Alloc()
			if err == nil {
				pages = []*txfile.Page{p}
			}
		} else {
			pages, err = r.tx.AllocN(n)
		}
		if err != nil {
			r.errOK(err, "Alloc")
			r.txOOM = true
			r.txOOMSeen = true
			r.out("%s(%d): error", op.K, n)
			return true
		}
		if len(pages) != n {
			e.Fail("C04", "alloc-count", "AllocN(%d) returned %d pages", n, len(pages))
			return true
		}
		r.checkAllocated(pages)
		return true

	case "setfull":
		if r.tx == nil || r.txDirtyUnknown {
			return false
		}
		c := r.filter(func(p *pgState, _ bool) bool { return !p.flushed })
		if len(c) == 0 {
			return false
		}
		id := pick(c, op.A)
		p, err := r.page(id)
		if err != nil {
			e.Fail("C03", "page-access", "Page(%d) failed: %v", id, err)
			return true
		}
		r.ver++
		buf := Stamp(e.Seed, id, r.ver, ps)
		if err := p.h.SetBytes(append([]byte(nil), buf...)); err != nil {
			e.Fail("C03", "setbytes", "SetBytes(page %d) failed: %v", id, err)
			return true
		}
		p.content, p.known, p.dirty = buf, true, true
		return true

	case "setpart":
		if r.tx == nil || r.txDirtyUnknown {
			return false
		}
		c := r.filter(func(p *pgState, committed bool) bool { return !p.flushed && (p.known || p.isNew) })
		if len(c) == 0 {
			return false
		}
		id := pick(c, op.A)
		p, err := r.page(id)
		if err != nil {
			e.Fail("C03", "page-access", "Page(%d) failed: %v", id, err)
			return true
		}
		n := 1 + abs(op.B)%(ps-1)
		r.ver++
		src := Stamp(e.Seed, id, r.ver, ps)[:n]
		if err := p.h.SetBytes(append([]byte(nil), src...)); err != nil {
			e.Fail("C03", "setbytes", "partial SetBytes(page %d, %d bytes) failed: %v", id, n, err)
			return true
		}
		nc := make([]byte, ps)
		if p.known {
			copy(nc, p.content)
		}
		copy(nc, src)
		p.content, p.known, p.dirty = nc, true, true
		return true

	case "loadmod":
		if r.tx == nil || r.txDirtyUnknown {
			return false
		}
		c := r.filter(func(p *pgState, committed bool) bool { return !p.flushed && (p.known || p.isNew) })
		if len(c) == 0 {
			return false
		}
		id := pick(c, op.A)
		p, err := r.page(id)
		if err != nil {
			e.Fail("C03", "page-access", "Page(%d) failed: %v", id, err)
			return true
		}
		if err := p.h.Load(); err != nil {
			e.Fail("C03", "load", "Load(page %d) failed: %v", id, err)
			return true
		}
		b, err := p.h.Bytes()
		if err != nil {
			e.Fail("C03", "load", "Bytes(page %d) after Load failed: %v", id, err)
			return true
		}
		want := make([]byte, ps)
		if p.known {
			copy(want, p.content)
		}
		if !bytes.Equal(b, want) {
			e.Fail("C03", "tx-read-mismatch", "Load+Bytes(page %d) holds %s, expected %s", id, DescribePage(b), DescribePage(want))
			return true
		}
		off := abs(op.B) % ps
		n := 1 + abs(op.C)%(ps-off)
		r.ver++
		src := Stamp(e.Seed, id, r.ver, ps)
		copy(b[off:off+n], src[off:off+n])
		copy(want[off:off+n], src[off:off+n])
		if err := p.h.MarkDirty(); err != nil {
			e.Fail("C03", "load", "MarkDirty(page %d) failed: %v", id, err)
			return true
		}
		p.content, p.known, p.dirty = want, true, true
		return true

	case "pflush":
		if r.tx == nil || r.txDirtyUnknown {
			return false
		}
		c := r.filter(func(p *pgState, _ bool) bool { return p.dirty && !p.flushed })
		if len(c) == 0 {
			return false
		}
		id := pick(c, op.A)
		p := r.txPages[id]
		if err := p.h.Flush(); err != nil {
			r.errOK(err, "Page.Flush")
			r.out("pflush %d: error", id)
			return true
		}
		p.flushed = true
		return true

	case "txflush":
		if r.tx == nil || r.txDirtyUnknown {
			return false
		}
		if err := r.tx.Flush(); err != nil {
			r.errOK(err, "Tx.Flush")
			r.out("txflush: error")
			r.txDirtyUnknown = true
			return true
		}
		for _, p := range r.txPages {
			if p.dirty {
				p.flushed = true
			}
		}
		return true

	case "free":
		if r.tx == nil || r.txDirtyUnknown {
			return false
		}
		c := r.filter(func(p *pgState, _ bool) bool { return !p.dirty && !p.flushed })
		if len(c) == 0 {
			return false
		}
		id := pick(c, op.A)
		p, err := r.page(id)
		if err != nil {
			e.Fail("C03", "page-access", "Page(%d) failed: %v", id, err)
			return true
		}
		if err := p.h.Free(); err != nil {
			e.Fail("C03", "free", "Free(page %d) failed: %v", id, err)
			return true
		}
		p.freed = true
		if !p.isNew {
			r.txFreed[id] = true
		}
		if r.txRoot == id {
			// keep the model simple: a freed root is reset
			r.tx.SetRoot(0)
			r.txRoot = 0
		}
		return true

	case "freetail": // A = number of clean pages with the highest ids to free
		if r.tx == nil || r.txDirtyUnknown {
			return false
		}
		c := r.filter(func(p *pgState, _ bool) bool { return !p.dirty && !p.flushed })
		n := op.A
		if n > len(c) {
			n = len(c)
		}
		if n <= 0 {
			return false
		}
		for _, id := range c[len(c)-n:] {
			p, err := r.page(id)
			if err != nil {
				e.Fail("C03", "page-access", "Page(%d) failed: %v", id, err)
				return true
			}
			if err := p.h.Free(); err != nil {
				e.Fail("C03", "free", "Free(page %d) failed: %v", id, err)
				return true
			}
			p.freed = true
			if !p.isNew {
				r.txFreed[id] = true
			}
			if r.txRoot == id {
				r.tx.SetRoot(0)
				r.txRoot = 0
			}
		}
		return true

	case "setroot":
		if r.tx == nil {
			return false
		}
		c := r.live()
		var id PageID
		if len(c) > 0 && op.A >= 0 {
			id = pick(c, op.A)
		}
		r.tx.SetRoot(id)
		r.txRoot = id
		if got := r.tx.Root(); got != id {
			e.Fail("C03", "root-mismatch", "Root() returns %d after SetRoot(%d)", got, id)
		}
		return true

	case "checkpoint":
		if r.tx == nil || r.txDirtyUnknown {
			return false
		}
		if len(txfile.VerifAllocSnapshot(r.F).WALMapping) > 0 {
			e.Probe("checkpoint_with_wal_entries")
		}
		if len(r.txPages) == 0 {
			e.Probe("maintenance_tx")
		}
		if err := r.tx.CheckpointWAL(); err != nil {
			e.Fail("C03", "checkpoint", "CheckpointWAL failed: %v", err)
		}
		return true

	case "touch": // fetch the page handle only (Tx.Page), contents are accessed by later operations
		if r.tx == nil || r.txDirtyUnknown {
			return false
		}
		c := r.filter(func(p *pgState, committed bool) bool { return committed && r.txPages[p.id] == nil })
		if len(c) == 0 {
			return false
		}
		id := pick(c, op.A)
		if _, err := r.page(id); err != nil {
			e.Fail("C03", "page-access", "Page(%d) failed: %v", id, err)
		}
		e.Probe("handle_fetched_before_use")
		return true

	case "readv":
		if r.tx == nil || r.txDirtyUnknown {
			return false
		}
		c := r.filter(func(p *pgState, _ bool) bool { return p.known })
		if len(c) == 0 {
			return false
		}
		id := pick(c, op.A)
		p, err := r.page(id)
		if err != nil {
			e.Fail("C03", "page-access", "Page(%d) failed: %v", id, err)
			return true
		}
		b, err := p.h.Bytes()
		if err != nil {
			e.Fail("C03", "tx-read-mismatch", "Bytes(page %d) failed inside write transaction: %v", id, err)
			return true
		}
		if !bytes.Equal(b, p.content) {
			e.Fail("C03", "tx-read-mismatch", "write transaction reads page %d as %s, expected its own latest write %s", id, DescribePage(b), DescribePage(p.content))
		}
		return true

	case "commit":
		if r.tx == nil {
			return false
		}
		r.doCommit()
		return true

	case "rollback", "closetx":
		if r.tx == nil {
			return false
		}
		var err error
		if r.BeforeEnd != nil {
			r.BeforeEnd()
		}
		r.keepLast()
		for _, p := range r.txPages {
			if p.flushed {
				e.Probe("rollback_after_flush")
				break
			}
		}
		if op.K == "rollback" {
			err = r.tx.Rollback()
		} else {
			err = r.tx.Close()
		}
		r.tx = nil
		r.LastEnd = op.K
		if r.OnTxEnd != nil {
			r.OnTxEnd()
		}
		if err != nil {
			e.Fail("C07", "rollback-error", "%s returned an error: %v", op.K, err)
			return true
		}
		e.Probe("tx_aborted")
		r.afterTx()
		return true

	case "verify":
		if r.tx != nil || r.F == nil {
			return false
		}
		r.VerifyAll("verify")
		return true

	case "reopen":
		if r.tx != nil || r.F == nil {
			return false
		}
		if r.ReopenFn != nil {
			r.ReopenFn()
		} else {
			r.Reopen()
		}
		return true
	}
	panic("unknown op " + op.K)
}

func abs(i int) int {
	if i < 0 {
		return -i
	}
	return i
}

// checkAllocated applies the C04 ownership monitor to freshly allocated pages.
func (r *Runner) checkAllocated(pages []*txfile.Page) {
	e := r.E
	part := TakePartition(r.F)
	cur := r.Cur()
	seen := map[PageID]bool{}
	for _, h := range pages {
		id := h.ID()
		switch {
		case id < 2:
			e.Fail("C04", "alloc-header", "Alloc returned header page id %d", id)
		case seen[id]:
			e.Fail("C04", "alloc-duplicate", "one allocation call returned page %d twice", id)
		}
		seen[id] = true
		if _, live := cur.Pages[id]; live {
			if r.txFreed[id] {
				e.Fail("C04", "alloc-freed-committed", "Alloc returned page %d which is live in the committed state and was only freed by the running transaction", id)
			} else {
				e.Fail("C04", "alloc-live", "Alloc returned page %d which is live in the committed state", id)
			}
		}
		if p := r.txPages[id]; p != nil && p.isNew && !p.freed {
			e.Fail("C04", "alloc-duplicate", "Alloc returned page %d which the running transaction already holds", id)
		}
		if part.Internal[id] {
			e.Fail("C04", "alloc-internal", "Alloc returned page %d which the file uses internally (WAL/freelist/mapping)", id)
		}
		if part.MetaFree[id] {
			e.Fail("C04", "alloc-internal", "Alloc returned page %d which belongs to the meta area", id)
		}
		if p := r.txPages[id]; p != nil && p.isNew && p.freed {
			e.Probe("immediate_recycle")
		}
		if part.DataFree[id] {
			// (snapshot taken after the allocation: still listed => double hand-out)
			e.Fail("C04", "alloc-still-free", "Alloc returned page %d which is still on the data free list", id)
		}
		if id < r.txDataEnd {
			e.Probe("alloc_from_freelist")
		}
		r.txPages[id] = &pgState{id: id, h: h, isNew: true}
		e.Obs("alloc %d", id)
		r.out("alloc -> %d", id)
	}
}

func (r *Runner) keepLast() {
	r.LastTx = r.tx
	r.LastPages = r.LastPages[:0]
	ids := make([]PageID, 0, len(r.txPages))
	for id := range r.txPages {
		ids = append(ids, id)
	}
	sort.Slice(ids, func(i, j int) bool { return ids[i] < ids[j] })
	for _, id := range ids {
		if h := r.txPages[id].h; h != nil {
			r.LastPages = append(r.LastPages, h)
		}
	}
}

// attemptedState computes the state the running transaction would commit.
func (r *Runner) attemptedState() *State {
	st := r.Cur().clone()
	st.N++
	st.Root = r.txRoot
	for id := range r.txFreed {
		delete(st.Pages, id)
	}
	for id, p := range r.txPages {
		if p.freed {
			continue
		}
		if p.isNew {
			if p.known {
				st.Pages[id] = p.content
			} else {
				st.Pages[id] = nil
			}
		} else if p.dirty {
			st.Pages[id] = p.content
		}
	}
	return st
}

func (r *Runner) doCommit() {
	e := r.E
	next := r.attemptedState()
	rec := CommitRec{Begin: r.D.Marker(fmt.Sprintf("commit-begin %d", next.N)), End: -1, State: next, Prev: r.Cur()}
	r.Commits = append(r.Commits, rec)
	ci := len(r.Commits) - 1
	r.Commits[ci].InvSeq = e.S.NextSeq()
	if r.BeforeEnd != nil {
		r.BeforeEnd()
	}
	r.keepLast()
	err := r.tx.Commit()
	r.tx = nil
	r.LastEnd = "commit-ok"
	if err != nil {
		r.LastEnd = "commit-failed"
	}
	r.Commits[ci].RetSeq = e.S.NextSeq()
	if r.OnTxEnd != nil {
		r.OnTxEnd()
	}
	if r.OnCommitResult != nil {
		if err == nil {
			next.TxID = txfile.VerifHeaderSnapshot(r.F).TxID
		}
		r.OnCommitResult(&r.Commits[ci], err)
		if e.Failed() {
			return
		}
	}
	if err != nil {
		r.Commits[ci].End = r.D.Marker(fmt.Sprintf("commit-err %d", next.N))
		e.Probe("commit_failed")
		r.out("commit: error")
		if !r.errOK(err, "Commit") {
			return
		}
		if !isKind(err, txfile.TxCommitFail) && !r.Faulty {
			e.Fail("C03", "unexpected-error", "Commit error has kind other than TxCommitFail: %v", err)
		}
		r.afterTx()
		return
	}
	h := txfile.VerifHeaderSnapshot(r.F)
	next.TxID = h.TxID
	r.Commits[ci].End = r.D.Marker(fmt.Sprintf("commit-ok %d", next.N))
	r.Commits[ci].OK = true
	r.Hist = append(r.Hist, next)
	e.Probe("commit_ok")
	r.out("commit: ok")
	e.Obs("commit %d txid=%d pages=%d", next.N, next.TxID, len(next.Pages))
	if r.OnCommitted != nil {
		r.OnCommitted(next)
	}
	r.afterTx()
}

// afterTx runs the quiescent-point oracles.
func (r *Runner) afterTx() {
	if r.E.Failed() {
		return
	}
	// no yield point between the end of the transaction and these two checks
	r.CheckPartition()
	if !r.SkipLocksIdle {
		r.CheckLocksIdle("after transaction")
	}
	if !r.NoPostCheck {
		r.VerifyAll("after transaction")
	}
	if r.OnQuiescent != nil && !r.E.Failed() {
		r.OnQuiescent("after transaction")
	}
}

// VerifyAll compares the file content with the model through a read transaction.
func (r *Runner) VerifyAll(when string) {
	e := r.E
	tx, err := r.F.BeginReadonly()
	if err != nil {
		e.Fail("C09", "begin-failed", "BeginReadonly failed (%s): %v", when, err)
		return
	}
	if r.ReadOpened != nil {
		r.ReadOpened()
	}
	if msg := VerifyState(tx, r.Cur()); msg != "" {
		r.fail("C03", "state-mismatch", "%s: %s", when, msg)
	}
	if err := tx.Close(); err != nil {
		e.Fail("C03", "unexpected-error", "closing read transaction failed: %v", err)
	}
	if r.ReadClosed != nil {
		r.ReadClosed()
	}
}

// CheckPartition evaluates the C04 partition invariant (and C11 coverage).
func (r *Runner) CheckPartition() {
	e := r.E
	p := TakePartition(r.F)
	if msg := p.CheckDisjoint(r.Cur().Pages); msg != "" {
		r.fail("C04", "partition", "%s", msg)
		return
	}
	e.Probe("partition_checked")
	if r.CheckCover {
		if msg := p.CheckCoverage(r.Cur().Pages); msg != "" {
			r.fail("C11", "coverage", "%s", msg)
		}
	}
}

// CheckLocksIdle verifies that no lock is left behind while no transaction is open.
func (r *Runner) CheckLocksIdle(when string) {
	ls := txfile.VerifLockSnapshot(r.F)
	if ls.SharedCount != 0 || ls.PendingSet || ls.ReservedHeld {
		r.fail("C09", "lock-leak", "%s, no transaction open: shared=%d pending=%v reserved=%v", when, ls.SharedCount, ls.PendingSet, ls.ReservedHeld)
	}
}

// Reopen closes and opens the file again and verifies the state.
func (r *Runner) Reopen() {
	e := r.E
	if err := r.E.CloseFile(r.F); err != nil {
		if !r.Faulty {
			e.Fail("C10", "close-error", "File.Close failed: %v", err)
			return
		}
	}
	r.F = nil
	if err := r.Open(); err != nil {
		if r.Faulty {
			// opening may fail while faults are injected; retry without faults
			r.D.ClearFaults()
			if err2 := r.Open(); err2 != nil {
				r.fail("C08", "reopen-error", "opening failed under injected faults (%v) and still fails after the faults stopped: %v", err, err2)
				return
			}
		} else {
			e.Fail("C10", "reopen-error", "reopening the file failed: %v", err)
			return
		}
	}
	e.Probe("reopen")
	if txfile.VerifHeaderSnapshot(r.F).TxID != r.Cur().TxID && !r.Faulty {
		e.Fail("C10", "reopen-txid", "reopened file is at header txid %d, expected %d", txfile.VerifHeaderSnapshot(r.F).TxID, r.Cur().TxID)
	}
	r.VerifyAll("after reopen")
	r.CheckPartition()
	r.CheckLocksIdle("after reopen")
	if r.OnQuiescent != nil && !e.Failed() {
		r.OnQuiescent("after reopen")
	}
}

// Close closes the file.
func (r *Runner) Close() {
	if r.F == nil {
		return
	}
	if r.tx != nil {
		r.tx.Close()
		r.tx = nil
	}
	if err := r.E.CloseFile(r.F); err != nil {
		r.E.Fail("C10", "close-error", "File.Close failed: %v", err)
	}
	r.F = nil
}

// ---------------------------------------------------------------------------
// generator

// Mix holds relative operation weights.
type Mix struct {
	Alloc, AllocN, SetFull, SetPart, LoadMod, PFlush, TxFlush, Free, SetRoot, Checkpoint, ReadV int
	Commit, Rollback, CloseTx                                                                   int
	Reopen                                                                                      int
	OpsPerTx                                                                                    int
	MaxAllocN                                                                                   int
}

var mixes = map[string]Mix{
	"balanced":   {Alloc: 10, AllocN: 4, SetFull: 12, SetPart: 5, LoadMod: 5, PFlush: 4, TxFlush: 2, Free: 6, SetRoot: 2, Checkpoint: 1, ReadV: 5, Commit: 80, Rollback: 12, CloseTx: 8, Reopen: 5, OpsPerTx: 8, MaxAllocN: 6},
	"alloc":      {Alloc: 14, AllocN: 10, SetFull: 14, SetPart: 2, LoadMod: 2, PFlush: 2, TxFlush: 1, Free: 8, SetRoot: 1, Checkpoint: 0, ReadV: 2, Commit: 85, Rollback: 10, CloseTx: 5, Reopen: 3, OpsPerTx: 10, MaxAllocN: 12},
	"overwrite":  {Alloc: 4, AllocN: 2, SetFull: 18, SetPart: 8, LoadMod: 8, PFlush: 6, TxFlush: 3, Free: 2, SetRoot: 1, Checkpoint: 2, ReadV: 6, Commit: 85, Rollback: 10, CloseTx: 5, Reopen: 4, OpsPerTx: 9, MaxAllocN: 4},
	"fragment":   {Alloc: 8, AllocN: 8, SetFull: 8, SetPart: 1, LoadMod: 1, PFlush: 1, TxFlush: 1, Free: 16, SetRoot: 1, Checkpoint: 0, ReadV: 1, Commit: 88, Rollback: 8, CloseTx: 4, Reopen: 4, OpsPerTx: 12, MaxAllocN: 8},
	"rollback":   {Alloc: 10, AllocN: 6, SetFull: 12, SetPart: 3, LoadMod: 3, PFlush: 6, TxFlush: 4, Free: 8, SetRoot: 2, Checkpoint: 1, ReadV: 3, Commit: 45, Rollback: 35, CloseTx: 20, Reopen: 3, OpsPerTx: 8, MaxAllocN: 8},
	"checkpoint": {Alloc: 5, AllocN: 2, SetFull: 16, SetPart: 5, LoadMod: 5, PFlush: 5, TxFlush: 2, Free: 3, SetRoot: 1, Checkpoint: 8, ReadV: 4, Commit: 88, Rollback: 8, CloseTx: 4, Reopen: 4, OpsPerTx: 8, MaxAllocN: 4},
	"big":        {Alloc: 4, AllocN: 14, SetFull: 10, SetPart: 2, LoadMod: 2, PFlush: 2, TxFlush: 2, Free: 10, SetRoot: 1, Checkpoint: 1, ReadV: 2, Commit: 85, Rollback: 10, CloseTx: 5, Reopen: 4, OpsPerTx: 10, MaxAllocN: 40},
}

var mixNames = []string{"balanced", "alloc", "overwrite", "fragment", "rollback", "checkpoint", "big"}

// Gen produces the next operation for the current runner state.
type Gen struct {
	R      *Runner
	Rng    *simsched.Rand
	M      Mix
	inTxOps int
	txLen  int
	NoReopen bool
	lowSpace bool
	NoOverflow bool
	maint    bool
	plan     []Op // scripted operations of the running transaction
}

func NewGen(r *Runner, rng *simsched.Rand, mix string) *Gen {
	m, ok := mixes[mix]
	if !ok {
		m = mixes["balanced"]
	}
	return &Gen{R: r, Rng: rng, M: m}
}

// StartTx resets the per transaction counters (used when the harness begins
// the transaction itself).
func (g *Gen) StartTx() {
	g.maint = false
	g.inTxOps = 0
	g.txLen = 1 + g.Rng.Intn(2*g.M.OpsPerTx)
}

type wop struct {
	w  int
	op func() Op
}

// Next returns the next operation. After a transaction end it may return a
// "reopen"; otherwise it begins a new transaction.
func (g *Gen) Next() Op {
	r, rng := g.R, g.Rng
	if !r.InTx() {
		if !g.NoReopen && g.M.Reopen > 0 && rng.Intn(100) < g.M.Reopen {
			return Op{K: "reopen"}
		}
		g.inTxOps = 0
		g.txLen = 1 + rng.Intn(2*g.M.OpsPerTx)
		// maintenance transactions: no page is accessed at all (checkpoint only,
		// root change only, or an empty commit)
		g.maint = rng.Intn(12) == 0
		if g.maint {
			g.txLen = rng.Intn(3)
		}
		a := 0
		g.plan = nil
		if r.Cfg.MaxSize > 0 && rng.Intn(8) == 0 && !g.NoOverflow {
			a = 1
			if rng.Intn(2) == 0 {
				// fill the data area to the brim inside this transaction, flush
				// overwrites (write-ahead pages from the overflow area), then give
				// pages at the end of the data area back
				for i, k := 0, rng.Intn(3); i < k; i++ {
					g.plan = append(g.plan, Op{K: "setfull", A: rng.Intn(1 << 20)})
				}
				g.plan = append(g.plan, Op{K: "allocfill", A: rng.Intn(5) / 3})
				for i, k := 0, 1+rng.Intn(4); i < k; i++ {
					g.plan = append(g.plan, Op{K: []string{"setfull", "setfull", "setpart", "free"}[rng.Intn(4)], A: rng.Intn(1 << 20), B: rng.Intn(1 << 12)})
				}
				g.plan = append(g.plan, Op{K: []string{"txflush", "pflush"}[rng.Intn(2)], A: rng.Intn(1 << 20)})
				if rng.Intn(4) > 0 {
					g.plan = append(g.plan, Op{K: "freetail", A: 1 + rng.Intn(3)})
				}
				g.txLen += len(g.plan)
			}
		}
		return Op{K: "begin", A: a}
	}
	g.inTxOps++
	if len(g.plan) > 0 && !r.txDirtyUnknown {
		op := g.plan[0]
		g.plan = g.plan[1:]
		return op
	}
	if g.inTxOps > g.txLen || r.txDirtyUnknown {
		g.plan = nil
		return g.end()
	}
	if g.maint {
		if rng.Intn(2) == 0 {
			return Op{K: "checkpoint"}
		}
		return Op{K: "setroot", A: rng.Intn(1 << 20)}
	}
	if r.txOOM || g.lowSpace {
		// file (nearly) full: mostly free pages so that later transactions make progress
		g.lowSpace = len(r.Cur().Pages) > 4
		if rng.Intn(10) < 7 {
			return Op{K: "free", A: rng.Intn(1 << 20)}
		}
	}
	m := g.M
	big := func() int { return rng.Intn(1 << 20) }
	choices := []wop{
		{m.Alloc, func() Op { return Op{K: "alloc"} }},
		{m.AllocN, func() Op { return Op{K: "allocn", A: 1 + rng.Intn(m.MaxAllocN)} }},
		{m.SetFull, func() Op { return Op{K: "setfull", A: big()} }},
		{m.SetPart, func() Op { return Op{K: "setpart", A: big(), B: g.size()} }},
		{m.LoadMod, func() Op { return Op{K: "loadmod", A: big(), B: big(), C: g.size()} }},
		{m.PFlush, func() Op { return Op{K: "pflush", A: big()} }},
		{m.TxFlush, func() Op { return Op{K: "txflush"} }},
		{m.Free, func() Op { return Op{K: "free", A: big()} }},
		{m.SetRoot, func() Op { return Op{K: "setroot", A: big() - 1<<17} }},
		{m.Checkpoint, func() Op { return Op{K: "checkpoint"} }},
		{m.ReadV, func() Op { return Op{K: "readv", A: big()} }},
		{2 + m.Checkpoint/2, func() Op { return Op{K: "touch", A: big()} }},
	}
	tot := 0
	for _, c := range choices {
		tot += c.w
	}
	x := rng.Intn(tot)
	for _, c := range choices {
		if x < c.w {
			return c.op()
		}
		x -= c.w
	}
	return g.end()
}

func (g *Gen) size() int {
	switch g.Rng.Intn(4) {
	case 0:
		return g.Rng.Intn(8)
	case 1:
		return g.R.Cfg.PageSize - 2 - g.Rng.Intn(8)
	default:
		return g.Rng.Intn(g.R.Cfg.PageSize)
	}
}

func (g *Gen) end() Op {
	m := g.M
	x := g.Rng.Intn(m.Commit + m.Rollback + m.CloseTx)
	switch {
	case x < m.Commit:
		return Op{K: "commit"}
	case x < m.Commit+m.Rollback:
		return Op{K: "rollback"}
	}
	return Op{K: "closetx"}
}

// DrawCfg draws a file configuration.
func DrawCfg(rng *simsched.Rand, bounded int) Cfg {
	c := Cfg{}
	c.PageSize = []int{1024, 1024, 2048, 4096}[rng.Intn(4)]
	switch {
	case bounded < 0 || (bounded == 0 && rng.Intn(3) == 0):
		c.MaxSize = 0
	default:
		c.MaxSize = []int{64, 64, 96, 128, 192, 256, 512}[rng.Intn(7)] << 10
	}
	c.InitMeta = []int{0, 0, 1, 2, 4, 7, 16}[rng.Intn(7)]
	if c.MaxSize > 0 {
		avail := c.MaxSize/c.PageSize - 2
		for c.InitMeta >= avail/2 {
			c.InitMeta /= 2
		}
		c.Prealloc = rng.Intn(4) == 0
	}
	c.WALLimit = []int{1, 2, 3, 10, 1000, 0}[rng.Intn(6)]
	c.GrowPct = []int{0, 0, 50, 80, 100}[rng.Intn(5)]
	c.SyncMode = rng.Intn(3) // default, data, full (never "none")
	c.Stick = []float64{0, 0.3, 0.6, 0.9, 0.98}[rng.Intn(5)]
	c.BgWeight = []float64{0.05, 0.3, 1, 1, 3, 10}[rng.Intn(6)]
	c.Mix = mixNames[rng.Intn(len(mixNames))]
	return c
}
