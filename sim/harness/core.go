package harness

import (
	"fmt"
	"runtime"
	"sort"
	"strings"
	"testing"
	"testing/synctest"

	txfile "github.com/elastic/go-txfile"

	"verifsim/simdisk"
	"verifsim/simsched"
)

type PageID = txfile.PageID

// Violation describes a property violation found by an oracle.
type Violation struct {
	Prop  string `json:"property"`
	Class string `json:"class"` // stable violation class used for shrinking and known-finding matching
	Msg   string `json:"msg"`
}

func (v *Violation) String() string { return fmt.Sprintf("%s/%s: %s", v.Prop, v.Class, v.Msg) }

// Op is one workload operation. Operands are indices into model sets.
type Op struct {
	K string `json:"k"`
	A int    `json:"a,omitempty"`
	B int    `json:"b,omitempty"`
	C int    `json:"c,omitempty"`
}

func (o Op) String() string {
	if o.A == 0 && o.B == 0 && o.C == 0 {
		return o.K
	}
	return fmt.Sprintf("%s(%d,%d,%d)", o.K, o.A, o.B, o.C)
}

// Cfg is the per-run configuration (swarm style, all drawn from the seed).
type Cfg struct {
	PageSize   int     `json:"page_size"`
	MaxSize    int     `json:"max_size"` // 0 = unbounded
	InitMeta   int     `json:"init_meta"`
	PQObserver bool    `json:"pq_observer,omitempty"` // queue opened with a statistics observer
	IDBase     uint64  `json:"id_base,omitempty"`     // first event id of the (new) queue
	PQRootOff  int     `json:"pq_root_off,omitempty"` // queue header embedded at this offset of a shared root page
	Prealloc   bool    `json:"prealloc,omitempty"`
	WALLimit   int     `json:"wal_limit"`
	GrowPct    int     `json:"grow_pct,omitempty"`
	Overflow   bool    `json:"overflow,omitempty"`
	SyncMode   int     `json:"sync_mode,omitempty"`
	Stick      float64 `json:"stick"`
	BgWeight   float64 `json:"bg_weight"`
	Starve     float64 `json:"starve,omitempty"`
	Mix        string  `json:"mix,omitempty"`
	NTx        int     `json:"ntx,omitempty"`
	Readers    int     `json:"readers,omitempty"`
	Writers    int     `json:"writers,omitempty"`
	Closer     bool    `json:"closer,omitempty"`
	WriteBuf   int     `json:"write_buf,omitempty"`
	Variant    int     `json:"variant,omitempty"`
	NewMaxSize int     `json:"new_max_size,omitempty"`
	Variant2   int     `json:"variant2,omitempty"`
	NewMaxSize2 int    `json:"new_max_size2,omitempty"`
	Prealloc2  bool    `json:"prealloc2,omitempty"`
	TxidBase   uint64  `json:"txid_base,omitempty"`
	NoYieldIO  bool    `json:"no_yield_io,omitempty"`
}

// CrashChoice selects one crash image.
type CrashChoice struct {
	K       int   `json:"k"`    // op-log index: crash just before entry k
	Keep    []int `json:"keep"` // kept pending ops (positions in the pending list)
	TearPos int   `json:"tear_pos"`
	TearLen int   `json:"tear_len"`
	Cont    bool  `json:"cont,omitempty"`   // a continuation workload ran on the recovered image
	Nested  bool  `json:"nested,omitempty"` // the continuation was cut by a second crash enumeration
	ContSeed uint64 `json:"cont_seed,omitempty"` // C06: seed of the continuation history run on the recovered queue
}

// Case is a completely described simulation run. A Case with only Prop and Seed
// set is expanded from the seed; the expanded (explicit) form is what gets
// written into replay files.
type Case struct {
	Prop     string           `json:"property"`
	Seed     uint64           `json:"seed"`
	Tier     string           `json:"tier,omitempty"`
	Cfg      *Cfg             `json:"cfg,omitempty"`
	Tasks    map[string][]Op  `json:"tasks,omitempty"`
	Faults   []simdisk.Fault  `json:"faults,omitempty"`
	Schedule []string         `json:"schedule,omitempty"`
	Loose    bool             `json:"loose_schedule,omitempty"`
	Crash    *CrashChoice     `json:"crash,omitempty"`
	Damage   *Damage          `json:"damage,omitempty"`
	Viol     *Violation       `json:"violation,omitempty"`
	Notes    []string         `json:"notes,omitempty"`
	Explicit bool             `json:"explicit,omitempty"`
}

// Damage describes one header corruption (C16).
type Damage struct {
	Slot  int    `json:"slot"`
	Kind  string `json:"kind"`
	Off   int    `json:"off"`
	Bit   int    `json:"bit"`
	Len   int    `json:"len"`
	Bytes []byte `json:"bytes,omitempty"`
	Slot2 *Damage `json:"second,omitempty"`
}

// Result is what a run reports back.
type Result struct {
	Viol       *Violation     `json:"violation,omitempty"`
	Case       *Case          `json:"case,omitempty"` // explicit form (only kept for violations and samples)
	Probes     map[string]int `json:"probes,omitempty"`
	Evals      int            `json:"evals"`      // evaluations performed by this run (>=1)
	Sig        uint64         `json:"sig"`        // signature for distinctness
	Sigs       []uint64       `json:"sigs,omitempty"` // additional signatures (one per sub-evaluation class)
	Nontrivial bool           `json:"nontrivial"`
	Steps      int            `json:"steps"`
	IOOps      int            `json:"io_ops"`
	Switches   int            `json:"switches"`
	Fired      []int          `json:"fired,omitempty"`
	SchedHash  uint64         `json:"sched_hash"`
	Trace      string         `json:"trace,omitempty"` // full deterministic event log (selftest only)
	Known      []string       `json:"known,omitempty"`
}

// Env is the environment of one simulated run.
type Env struct {
	T     *testing.T
	S     *simsched.Sched
	Seed  uint64
	Case  *Case
	Res   *Result
	viol  *Violation
	obs   []string // observation log (determinism comparison)
	keepObs bool
	disks []*simdisk.Disk
	// NontrivialIf, if set, decides Result.Nontrivial after the run (when
	// scheduler statistics are known).
	NontrivialIf func(res *Result) bool
	// openFiles counts Files that are open or being opened/closed by the harness.
	// Every File owns exactly one writer goroutine; after File.Close returned it
	// must be gone (scheduler invariant, see RunSim).
	openFiles int
}

// OpenFile opens a File on a simulated disk (txfile.Open minus os file and path lock).
func (e *Env) OpenFile(d txfile.VerifDisk, o txfile.Options) (*txfile.File, error) {
	e.openFiles++
	f, err := txfile.VerifOpenWith(d, o)
	if err != nil {
		e.openFiles--
		return nil, err
	}
	return f, nil
}

// CloseFile closes a File.
func (e *Env) CloseFile(f *txfile.File) error {
	err := f.Close()
	e.openFiles--
	return err
}

// Rng returns a generator for the given purpose, independent of all others.
func (e *Env) Rng(purpose string) *simsched.Rand {
	h := uint64(14695981039346656037)
	for _, c := range []byte(purpose) {
		h = (h ^ uint64(c)) * 1099511628211
	}
	return simsched.NewRand(simsched.Mix(e.Seed, h))
}

// Fail records a violation (the first one wins).
func (e *Env) Fail(prop, class, format string, args ...interface{}) {
	if e.viol == nil {
		e.viol = &Violation{Prop: prop, Class: class, Msg: fmt.Sprintf(format, args...)}
	}
}

func (e *Env) Failed() bool { return e.viol != nil }

func (e *Env) Probe(name string) { e.Res.Probes[name]++ }
func (e *Env) ProbeN(name string, n int) {
	if n > 0 {
		e.Res.Probes[name] += n
	}
}

// Obs appends to the observation log.
func (e *Env) Obs(format string, args ...interface{}) {
	if e.keepObs {
		e.obs = append(e.obs, fmt.Sprintf(format, args...))
	}
}

func (e *Env) Yield(point string) { e.S.Yield(point) }

// NewDisk creates a simulated disk registered with the environment.
func (e *Env) NewDisk(name string) *simdisk.Disk {
	d := simdisk.New(name, e.S)
	if e.Case.Cfg != nil && e.Case.Cfg.NoYieldIO {
		d.YieldIO = false
	}
	e.disks = append(e.disks, d)
	return d
}

func (e *Env) NewDiskFromImage(name string, img []byte) *simdisk.Disk {
	d := simdisk.NewFromImage(name, e.S, img)
	if e.Case.Cfg != nil && e.Case.Cfg.NoYieldIO {
		d.YieldIO = false
	}
	e.disks = append(e.disks, d)
	return d
}

// Guard runs fn and converts a panic into a violation of prop.
func (e *Env) Guard(prop, what string, fn func()) (panicked bool) {
	defer func() {
		if r := recover(); r != nil {
			panicked = true
			e.Fail(prop, "panic", "%s panicked: %v at %s", what, r, shortStack())
		}
	}()
	fn()
	return false
}

func shortStack() string {
	buf := make([]byte, 8<<10)
	n := runtime.Stack(buf, false)
	lines := strings.Split(string(buf[:n]), "\n")
	var out []string
	for i := 0; i < len(lines); i++ {
		l := strings.TrimSpace(lines[i])
		if strings.HasPrefix(l, "/repo/") || strings.Contains(l, "go-txfile") && strings.HasPrefix(l, "/") {
			if j := strings.Index(l, " +0x"); j > 0 {
				l = l[:j]
			}
			out = append(out, strings.TrimPrefix(l, "/repo/"))
			if len(out) >= 4 {
				break
			}
		}
	}
	return strings.Join(out, " < ")
}

// Body is the simulated program of one property check.
type Body func(e *Env)

var flushRng *simsched.Rand

// RunSim executes body as task "main" inside a synctest bubble under the
// cooperative scheduler. It never panics.
func RunSim(t *testing.T, c *Case, keepTrace bool, body Body) (res *Result) {
	res = &Result{Probes: map[string]int{}, Evals: 1}
	cfg := c.Cfg
	scfg := simsched.Config{Stick: 0.5, BgWeight: 1, MaxSteps: 100000}
	if cfg != nil {
		scfg.Stick, scfg.BgWeight = cfg.Stick, cfg.BgWeight
		scfg.Starve, scfg.StarveLen = cfg.Starve, 40
	}
	if c.Schedule != nil {
		scfg.Replay = c.Schedule
		scfg.ReplayLoose = c.Loose
	}
	var env *Env
	var schedErr error
	var harnessPanic string
	func() {
		defer func() {
			if r := recover(); r != nil {
				// end-of-bubble deadlock panic: goroutines leaked by a run that
				// has already been judged. Nothing to do.
				if harnessPanic == "" && schedErr == nil && (env == nil || env.viol == nil) {
					harnessPanic = fmt.Sprintf("bubble: %v", r)
				}
			}
		}()
		synctest.Test(t, func(t *testing.T) {
			defer func() {
				if r := recover(); r != nil {
					harnessPanic = fmt.Sprintf("harness panic: %v\n%s", r, shortStackAll())
				}
			}()
			s := simsched.New(simsched.NewRand(simsched.Mix(c.Seed, 0x5c4ed)), scfg)
			env = &Env{T: t, S: s, Seed: c.Seed, Case: c, Res: res, keepObs: keepTrace}
			txfile.VerifYield = s.Yield
			txfile.VerifYieldUntil = s.YieldUntil
			// the flush order is a function of the seed and of the set of pages
			// to flush (twin runs flushing the same pages use the same order)
			txfile.VerifFlushOrder = func(ids []PageID) {
				h := simsched.Mix(c.Seed, 0xf1a5)
				for _, id := range ids {
					h = simsched.Mix(h, uint64(id))
				}
				fr := simsched.NewRand(h)
				for i := len(ids) - 1; i > 0; i-- {
					j := fr.Intn(i + 1)
					ids[i], ids[j] = ids[j], ids[i]
				}
			}
			s.Invariant = func(parkedBg int) error {
				if parkedBg > env.openFiles {
					return fmt.Errorf("%d background writer goroutine(s) of the engine are still running although only %d File(s) are open: File.Close returned (or Open failed) without waiting for its writer goroutine", parkedBg, env.openFiles)
				}
				return nil
			}
			s.Go("main", func() { body(env) })
			schedErr = s.Run()
			if schedErr == nil {
				s.Drain(64)
			}
		})
	}()
	txfile.VerifYield, txfile.VerifYieldUntil, txfile.VerifFlushOrder = nil, nil, nil

	if env != nil {
		res.Steps = env.S.Steps()
		res.Switches = env.S.Switches
		if env.S.Starved > 0 {
			res.Probes["sched_starvation_episodes"] += env.S.Starved
			res.Probes["sched_starved_task_released_at_point"] += env.S.StarveReleased
		}
		for _, d := range env.disks {
			res.IOOps += len(d.Log)
			if res.Fired == nil {
				res.Fired = make([]int, simdisk.NumFaultKinds)
			}
			for k, n := range d.Fired {
				res.Fired[k] += n
			}
		}
		h := uint64(1469598103934665603)
		for _, st := range env.S.Trace {
			for _, b := range []byte(st.Task) {
				h = (h ^ uint64(b)) * 1099511628211
			}
			for _, b := range []byte(st.Point) {
				h = (h ^ uint64(b)) * 1099511628211
			}
		}
		res.SchedHash = h
		res.Sig = simsched.Mix(res.Sig, h)
		if env.NontrivialIf != nil {
			res.Nontrivial = env.NontrivialIf(res)
		}
		c.Schedule = env.S.Choices
		if env.viol != nil {
			res.Viol = env.viol
		}
		if keepTrace {
			var sb strings.Builder
			for i, st := range env.S.Trace {
				fmt.Fprintf(&sb, "S %d %s %s\n", i, st.Task, st.Point)
			}
			for di, d := range env.disks {
				for i, op := range d.Log {
					fmt.Fprintf(&sb, "D %d %d %d %s %s off=%d len=%d size=%d err=%v %s\n", di, i, op.Seq, op.Task, op.Kind, op.Off, op.Len, op.Size, op.Err, op.Note)
				}
			}
			for _, o := range env.obs {
				sb.WriteString("O ")
				sb.WriteString(o)
				sb.WriteByte('\n')
			}
			res.Trace = sb.String()
		}
	}
	if res.Viol == nil && schedErr != nil {
		switch e := schedErr.(type) {
		case *simsched.ErrDeadlock:
			res.Viol = &Violation{Prop: liveProp(c.Prop), Class: "deadlock", Msg: e.Error()}
		case *simsched.ErrBudget:
			res.Viol = &Violation{Prop: liveProp(c.Prop), Class: "livelock", Msg: e.Error()}
		case *simsched.ErrInvariant:
			res.Viol = &Violation{Prop: "C09", Class: "writer-goroutine-leak", Msg: e.Error()}
		case *simsched.ErrReplay:
			res.Viol = &Violation{Prop: "HARNESS", Class: "replay-diverged", Msg: e.Error()}
		default:
			res.Viol = &Violation{Prop: panicProp(c.Prop), Class: "panic", Msg: compactPanic(schedErr.Error())}
		}
	}
	if res.Viol == nil && harnessPanic != "" {
		res.Viol = &Violation{Prop: "HARNESS", Class: "harness-panic", Msg: harnessPanic}
	}
	return res
}

// liveProp maps the property under test to the property a hang is reported under.
func liveProp(p string) string {
	switch p {
	case "C13":
		return "C13"
	case "C08":
		return "C08"
	case "C14":
		return "C14"
	case "C15":
		return "C15"
	}
	return "C09"
}

// panicProp maps the property under test to the property a panic is reported under.
func panicProp(p string) string {
	switch p {
	case "C08", "C15", "C16":
		return p
	}
	return p
}

func firstLines(s string, n int) string {
	ls := strings.Split(s, "\n")
	if len(ls) > n {
		ls = ls[:n]
	}
	return strings.Join(ls, "\n")
}

func shortStackAll() string {
	buf := make([]byte, 16<<10)
	n := runtime.Stack(buf, false)
	return firstLines(string(buf[:n]), 40)
}

func sortedKeys(m map[PageID][]byte) []PageID {
	ids := make([]PageID, 0, len(m))
	for id := range m {
		ids = append(ids, id)
	}
	sort.Slice(ids, func(i, j int) bool { return ids[i] < ids[j] })
	return ids
}

// compactPanic reduces a panic report to the panic value and the frames inside
// the code under test (stable across runs: no addresses, no goroutine ids).
func compactPanic(s string) string {
	ls := strings.Split(s, "\n")
	head := ls[0]
	var frames []string
	for _, l := range ls[1:] {
		l = strings.TrimSpace(l)
		if strings.HasPrefix(l, "/repo/") {
			if j := strings.Index(l, " +0x"); j > 0 {
				l = l[:j]
			}
			frames = append(frames, strings.TrimPrefix(l, "/repo/"))
			if len(frames) >= 6 {
				break
			}
		}
	}
	return head + " at " + strings.Join(frames, " < ")
}
