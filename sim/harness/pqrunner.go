package harness

import (
	"encoding/binary"
	"bytes"
	"fmt"

	txfile "github.com/elastic/go-txfile"
	"github.com/elastic/go-txfile/pq"
	"github.com/elastic/go-txfile/txerr"

	"verifsim/simdisk"
	"verifsim/simsched"
)

const (
	pqPageHeader  = 28 // next, first, last (u64) + off (u32)
	pqEventHeader = 4
)

// PQ runs queue operations against the real pq package and the event model.
type PQ struct {
	E   *Env
	D   *simdisk.Disk
	Cfg Cfg
	F   *txfile.File
	Q   *pq.Queue
	W   *pq.Writer
	R   *pq.Reader

	// model
	Sizes     []int // sizes of all completed events (index = event number since creation)
	curBytes  int   // bytes written to the event under construction
	flushedLB int   // events certainly flushed (completed before the last successful explicit Flush/Close)
	acked     int   // events ACKed successfully
	rdIdx     int   // index of the next event the reader will deliver
	rdCur     int   // index of the event currently being read (-1 none)
	rdOff     int   // bytes of the current event already read
	rdDone    int   // events completely read (may be ACKed)
	rdActive  bool  // reader transaction open
	cbFlushed int   // total reported by the Flushed callback
	cbAcked   int   // total reported by the ACKed callback

	Ops      []Op
	NoRecord bool
	Prop     string // property violations of the FIFO oracle are reported under
	BufMonitor bool // watch the amount buffered at automatic flushes
	minBuf, maxChunk int
	overBudget bool
	idBased   bool
	armed     bool // a one-operation fault plan is active
	firedSeen int
	FaultRuns bool // the generator arms write faults before some Flush/Next calls
	resizeTo int    // pending maximum size change, applied by the next Open
	Faulty   bool   // errors from out-of-space are expected
	full     bool   // last producer call failed (file full)

	// markers for crash checking: window of allowed flushed / acked counts
	OnProducer func(begin bool, completedBefore, completedAfter int)
	OnACK      func(begin bool, n int)
	// CheckCounters enables the C17 oracle after every operation
	CheckCounters bool
	FlushOK       int // successful explicit flushes
	Concurrent    bool // producer and consumer are different tasks
	AfterOpen     func() // called after file and queue have been opened
	rdSnapLB      int    // events certainly flushed when the reader transaction began
	AckedN        int    // size of the last successful ACK
}

func NewPQ(e *Env, d *simdisk.Disk, cfg Cfg) *PQ {
	if cfg.PQRootOff > 0 && cfg.PQRootOff+pq.SzRoot > cfg.PageSize {
		cfg.PQRootOff = cfg.PageSize - pq.SzRoot // the page size was changed after the offset was drawn
	}
	return &PQ{E: e, D: d, Cfg: cfg, rdCur: -1, Prop: "C05"}
}

func (p *PQ) fail(class, format string, args ...interface{}) {
	p.E.Fail(p.Prop, class, format, args...)
}

func (p *PQ) fileOptions() txfile.Options {
	return txfile.Options{MaxSize: uint64(p.Cfg.MaxSize), PageSize: uint32(p.Cfg.PageSize), InitMetaArea: uint32(p.Cfg.InitMeta), Prealloc: p.Cfg.Prealloc}
}

// Open opens file and queue (creating them if needed).
func (p *PQ) Open() error {
	if err := p.D.Lock(true, false); err != nil {
		return err
	}
	opts := p.fileOptions()
	if p.resizeTo > 0 {
		// change the maximum size of the existing file at open time
		opts.Flags |= txfile.FlagUpdMaxSize
		opts.MaxSize = uint64(p.resizeTo)
		opts.InitMetaArea = 0
	}
	f, err := p.E.OpenFile(p.D, opts)
	if err != nil {
		p.D.Unlock()
		return err
	}
	if p.resizeTo > 0 {
		p.Cfg.MaxSize = p.resizeTo / p.Cfg.PageSize * p.Cfg.PageSize
		p.resizeTo = 0
		p.full = false
	}
	p.F = f
	p.E.Yield("opened")
	if p.Cfg.IDBase != 0 && !p.idBased {
		// the (new, empty) queue starts counting its event ids at IDBase: ids are
		// plain u64 counters compared with serial-number arithmetic
		p.idBased = true
		if err := p.rebaseIDs(); err != nil {
			p.E.CloseFile(p.F)
			p.F = nil
			return err
		}
		p.E.Probe("event_ids_rebased")
	}
	if err := p.openQueue(); err != nil {
		p.E.CloseFile(p.F)
		p.F = nil
		return err
	}
	if p.AfterOpen != nil {
		p.AfterOpen()
	}
	return nil
}

func (p *PQ) openQueue() error {
	dg, err := newQueueDelegate(p.F, p.Cfg)
	if err != nil {
		return err
	}
	set := pq.Settings{
		WriteBuffer: uint(p.Cfg.WriteBuf),
		Flushed:     func(n uint) { p.cbFlushed += int(n) },
		ACKed:       func(ev, pages uint) { p.cbAcked += int(ev) },
	}
	if p.Cfg.PQObserver {
		// a statistics observer must not change what the queue does
		set.Observer = &pqObserver{p: p}
	}
	q, err := pq.New(dg, set)
	if err != nil {
		return err
	}
	p.Q = q
	w, err := q.Writer()
	if err != nil {
		return err
	}
	p.W = w
	p.R = q.Reader()
	return nil
}

func (p *PQ) completed() int { return len(p.Sizes) }

func isOOM(err error) bool {
	return err != nil && (txerr.Is(txfile.OutOfMemory, err) || txerr.Is(txfile.NoDiskSpace, err) || bytes.Contains([]byte(fmt.Sprintf("%+v", err)), []byte("failed to flush dirty pages")))
}

// producerErr judges an error returned by Write/Next/Flush.
func (p *PQ) producerErr(what string, err error) {
	if err == nil {
		p.full = false
		return
	}
	if p.Cfg.MaxSize > 0 && isOOM(err) {
		p.full = true
		p.E.Probe("queue_full_error")
		return
	}
	if p.Faulty {
		return
	}
	p.fail("producer-error", "%s failed: %+v", what, err)
}

// Apply executes one queue operation.
func (p *PQ) Apply(op Op) bool {
	if p.E.Failed() {
		return false
	}
	if !p.NoRecord {
		p.Ops = append(p.Ops, op)
	}
	// write buffer monitor (C12 sustained traffic): bytes buffered when an
	// automatic flush happens must not grow with the traffic that passed through
	var bufBefore, flushedBefore int
	monitor := p.BufMonitor && (op.K == "write" || op.K == "next") && p.Q != nil
	if monitor {
		flushedBefore = p.cbFlushed
		for _, sz := range p.Sizes[min(p.cbFlushed, len(p.Sizes)):] {
			bufBefore += sz + pqEventHeader
		}
		if p.curBytes > 0 {
			bufBefore += p.curBytes + pqEventHeader
		}
		if op.K == "write" && op.A > p.maxChunk {
			p.maxChunk = op.A
		}
	}
	wasOver := p.overBudget
	ok := p.apply(op)
	if !ok && !p.NoRecord {
		p.Ops = p.Ops[:len(p.Ops)-1]
	}
	if monitor && ok && !p.E.Failed() {
		switch {
		case p.full:
			p.overBudget = true
		case p.cbFlushed > flushedBefore:
			p.overBudget = false
			if !wasOver {
				slack := p.Cfg.PageSize + p.maxChunk + 16
				if p.minBuf == 0 || bufBefore < p.minBuf {
					p.minBuf = bufBefore
				}
				p.E.Probe("auto_flush_observed")
				if bufBefore > p.minBuf+slack {
					p.fail("buffer-drift", "an automatic flush happened with %d bytes of events in the write buffer; earlier in this run the buffer was flushed at %d bytes already (difference above one page + the biggest Write + 16 = %d): the write buffer grows with the traffic that passed through (%d events so far)", bufBefore, p.minBuf, slack, p.completed())
				}
			}
		}
	}
	if ok && p.armed && op.K != "faultarm" {
		// the fault plan covers exactly one operation
		if n := p.D.Fired[simdisk.FWriteErr] + p.D.Fired[simdisk.FWriteShort]; n > p.firedSeen {
			p.firedSeen = n
			p.E.Probe("io_fault_in_producer_call")
		}
		p.D.ClearFaults()
		p.armed = false
	}
	if ok && p.CheckCounters && !p.E.Failed() && p.Q != nil {
		p.checkCounters("after " + op.String())
	}
	return ok
}

func (p *PQ) apply(op Op) bool {
	e := p.E
	switch op.K {
	case "write": // A = total bytes to add to the current event, B = chunk size
		if p.W == nil || (p.rdActive && !p.Concurrent) {
			// a commit waits for all read transactions: a task holding the reader
			// transaction open must not flush or ACK (it would wait for itself)
			return false
		}
		n := op.A
		if n < 1 {
			n = 1
		}
		chunk := op.B
		if chunk < 1 {
			chunk = n
		}
		idx := p.completed()
		// the final size is not known yet; content is a function of (idx, offset)
		for n > 0 && !e.Failed() {
			c := min(chunk, n)
			data := evChunk(e.Seed, idx, p.curBytes, c)
			before := p.completed()
			if p.OnProducer != nil {
				p.OnProducer(true, before, before)
			}
			w, err := p.W.Write(data)
			if p.OnProducer != nil {
				p.OnProducer(false, before, before)
			}
			if err != nil {
				p.producerErr("Write", err)
				if w != 0 {
					p.fail("write-count", "Write returned (%d, error)", w)
				}
				return true // nothing appended by the failing call
			}
			if w != c {
				p.fail("write-count", "Write(%d bytes) returned %d", c, w)
				return true
			}
			p.full = false
			p.curBytes += c
			n -= c
		}
		return true

	case "next":
		if p.W == nil || p.curBytes == 0 || (p.rdActive && !p.Concurrent) {
			return false
		}
		before := p.completed()
		if p.OnProducer != nil {
			p.OnProducer(true, before, before+1)
		}
		// the event is complete once Next is called (an implicit flush inside Next
		// may publish it; it stays complete in the buffer even if that flush fails)
		p.Sizes = append(p.Sizes, p.curBytes)
		p.curBytes = 0
		err := p.W.Next()
		if p.OnProducer != nil {
			p.OnProducer(false, before, before+1)
		}
		p.producerErr("Next", err)
		return true

	case "flush":
		if p.W == nil || (p.rdActive && !p.Concurrent) {
			return false
		}
		before := p.completed()
		if p.OnProducer != nil {
			p.OnProducer(true, before, before)
		}
		err := p.W.Flush()
		if p.OnProducer != nil {
			p.OnProducer(false, before, before)
		}
		p.producerErr("Flush", err)
		if err == nil {
			p.flushedLB = p.completed()
			p.FlushOK++
			if p.cbFlushed != p.completed() && !p.Faulty {
				e.Fail("C17", "flushed-callback", "after a successful Flush the Flushed callback reported %d events in total, %d events were completed", p.cbFlushed, p.completed())
			}
		}
		return true

	case "rbegin":
		if p.R == nil || p.rdActive {
			return false
		}
		// the reader works on the snapshot of its read transaction: everything
		// flushed before Begin was invoked must be visible
		p.rdSnapLB = p.flushedLB
		err := p.R.Begin()
		if err != nil {
			p.fail("reader-error", "Reader.Begin failed: %v", err)
			return true
		}
		p.rdActive = true
		return true

	case "rbegin2": // misuse (C15): Begin while the reader transaction is active
		if p.R == nil || !p.rdActive {
			return false
		}
		err := p.R.Begin()
		if err == nil {
			e.Fail("C15", "no-error", "Reader.Begin with an active reader transaction returned no error")
		} else if !txerr.Is(pq.UnexpectedActiveTx, err) {
			e.Fail("C15", "wrong-kind", "Reader.Begin with an active reader transaction returned an error of an undocumented kind: %v", err)
		}
		e.Probe("begin_with_active_tx")
		return true

	case "rdone":
		if p.R == nil || !p.rdActive {
			return false
		}
		p.R.Done()
		p.rdActive = false
		return true

	case "rnext":
		if p.R == nil || !p.rdActive {
			return false
		}
		l, err := p.R.Next()
		if err != nil {
			p.fail("reader-error", "Reader.Next failed: %+v", err)
			return true
		}
		if p.rdCur >= 0 {
			// the previous event is skipped (or was read completely)
			p.rdDone = p.rdCur + 1
			if p.rdOff < p.Sizes[p.rdCur] {
				e.Probe("event_skipped")
			}
			p.rdCur = -1
		}
		if l == 0 {
			if p.rdIdx < p.rdSnapLB {
				p.fail("missing-event", "Reader.Next reports an empty queue, but event %d of %d events flushed before the reader transaction began has not been delivered yet", p.rdIdx, p.rdSnapLB)
			}
			return true
		}
		if p.rdIdx >= p.completed() {
			p.fail("phantom-event", "Reader.Next delivered an event of %d bytes, but only %d events were appended and all have been delivered", l, p.completed())
			return true
		}
		if l != p.Sizes[p.rdIdx] {
			p.fail("event-size", "Reader.Next returned size %d for event %d, expected %d", l, p.rdIdx, p.Sizes[p.rdIdx])
			return true
		}
		p.rdCur, p.rdOff = p.rdIdx, 0
		p.rdIdx++
		return true

	case "rread": // A = buffer length
		if p.R == nil || !p.rdActive {
			return false
		}
		n := op.A
		if n < 1 {
			n = 1
		}
		buf := make([]byte, n)
		got, err := p.R.Read(buf)
		if err != nil {
			p.fail("reader-error", "Reader.Read failed: %+v", err)
			return true
		}
		if p.rdCur < 0 {
			if got != 0 {
				p.fail("read-outside-event", "Reader.Read returned %d bytes although no event is active", got)
			}
			return true
		}
		sz := p.Sizes[p.rdCur]
		want := min(n, sz-p.rdOff)
		if got != want {
			p.fail("read-count", "Reader.Read(buffer of %d) on event %d (size %d, %d already read) returned %d bytes, expected %d", n, p.rdCur, sz, p.rdOff, got, want)
			return true
		}
		exp := evChunk(e.Seed, p.rdCur, p.rdOff, got)
		if !bytes.Equal(buf[:got], exp) {
			p.fail("event-bytes", "event %d (size %d): bytes [%d,%d) differ from what was written (got %x.., want %x..)", p.rdCur, sz, p.rdOff, p.rdOff+got, buf[:min(got, 12)], exp[:min(got, 12)])
			return true
		}
		p.rdOff += got
		if p.rdOff == sz {
			p.rdDone = p.rdCur + 1
		}
		return true

	case "ack": // A = number of events (clamped to completely read, not yet ACKed events)
		if p.Q == nil || p.rdActive {
			return false
		}
		avail := p.rdDone - p.acked
		if avail <= 0 {
			return false
		}
		n := 1 + abs(op.A)%avail
		if p.OnACK != nil {
			p.OnACK(true, n)
		}
		err := p.Q.ACK(uint(n))
		if err == nil {
			p.acked += n
			p.AckedN = n
		}
		if p.OnACK != nil {
			p.OnACK(false, n)
		}
		if err != nil {
			if p.Faulty {
				return true
			}
			p.fail("ack-error", "ACK(%d) failed (%d events read completely, %d ACKed before): %+v", n, p.rdDone, p.acked, err)
			return true
		}
		if p.cbAcked != p.acked {
			e.Fail("C17", "acked-callback", "ACKed callback reported %d events in total, successful ACKs sum up to %d", p.cbAcked, p.acked)
		}
		return true

	case "reopen":
		if p.Q == nil || p.rdActive {
			return false
		}
		p.Reopen()
		return true

	case "faultarm": // A = kind (write error / short write), B = index of the failing write call
		if p.Q == nil || p.armed {
			return false
		}
		kind := []simdisk.FaultKind{simdisk.FWriteErr, simdisk.FWriteShort}[abs(op.A)%2]
		p.D.SetFaults([]simdisk.Fault{{Kind: kind, Nth: abs(op.B) % 64, Burst: 1}})
		p.armed, p.Faulty = true, true
		return true

	case "resize": // A = new maximum file size in bytes
		if p.Q == nil || p.rdActive || op.A <= 0 || p.Cfg.MaxSize == 0 {
			return false
		}
		p.resizeTo = op.A
		p.Reopen()
		p.E.Probe("pq_reopen_with_new_max_size")
		return true
	}
	panic("unknown pq op " + op.K)
}

// evChunk returns bytes [off, off+n) of event idx. Content does not depend on
// the final event size: it is a function of (seed, idx, position).
func evChunk(seed uint64, idx, off, n int) []byte {
	b := make([]byte, n)
	blk := -1
	var v uint64
	for i := 0; i < n; i++ {
		pos := off + i
		if pos/8 != blk {
			blk = pos / 8
			v = simsched.Mix(seed, 0xe7e7, uint64(idx), uint64(blk))
			if blk == 0 {
				v = uint64(idx)<<16 | 0xE0E1
			}
		}
		b[i] = byte(v >> (8 * uint(pos%8)))
	}
	return b
}

// Reopen closes queue and file and opens them again (clean restart).
func (p *PQ) Reopen() {
	e := p.E
	// Queue.Close flushes the write buffer: it is a producer call
	if p.OnProducer != nil {
		p.OnProducer(true, p.completed(), p.completed())
	}
	err := p.Q.Close()
	if p.OnProducer != nil {
		p.OnProducer(false, p.completed(), p.completed())
	}
	if err != nil {
		if p.Cfg.MaxSize > 0 && isOOM(err) {
			// flushing the write buffer failed: buffered events are lost
			e.Probe("close_flush_failed")
		} else {
			p.fail("close-error", "Queue.Close failed: %+v", err)
			return
		}
	} else {
		p.flushedLB = p.completed()
	}
	flushed := p.flushedLB
	if err != nil {
		// which events made it is only bounded: anything completed may or may not have been flushed earlier
		flushed = -1
	}
	if cerr := p.E.CloseFile(p.F); cerr != nil {
		p.fail("close-error", "File.Close failed: %v", cerr)
		return
	}
	p.F, p.Q, p.W, p.R = nil, nil, nil, nil
	if err := p.Open(); err != nil {
		p.fail("reopen-error", "reopening file and queue failed: %+v", err)
		return
	}
	e.Probe("pq_reopen")
	p.afterRestart(flushed)
	p.checkAppData("after reopen")
}

// afterRestart resets the volatile parts of the model: the reader restarts at
// the first un-ACKed event; completed-but-unflushed events are gone.
func (p *PQ) afterRestart(flushed int) {
	if flushed >= 0 {
		p.Sizes = p.Sizes[:flushed]
	} else {
		// unknown: determine from the queue itself (bounded by LB and completed)
		n, err := p.Q.Pending()
		if err != nil {
			p.fail("reopen-error", "Pending failed: %v", err)
			return
		}
		tot := p.acked + n
		if tot < p.flushedLB || tot > p.completed() {
			p.fail("reopen-count", "after reopen the queue holds events up to %d, expected between %d and %d", tot, p.flushedLB, p.completed())
			return
		}
		p.Sizes = p.Sizes[:tot]
	}
	p.flushedLB = p.completed()
	p.curBytes = 0
	p.rdIdx, p.rdCur, p.rdOff, p.rdDone = p.acked, -1, 0, p.acked
	p.rdActive = false
	p.cbFlushed = p.completed()
	p.cbAcked = p.acked
}

// checkCounters is the C17 oracle.
func (p *PQ) checkCounters(when string) {
	e := p.E
	F, A := p.cbFlushed, p.cbAcked
	if A != p.acked {
		e.Fail("C17", "acked-callback", "%s: ACKed callback total %d != %d successfully ACKed events", when, A, p.acked)
		return
	}
	if F < p.flushedLB || F > p.completed() {
		e.Fail("C17", "flushed-callback", "%s: Flushed callback total %d outside [%d flushed for sure, %d completed]", when, F, p.flushedLB, p.completed())
		return
	}
	pend, err := p.Q.Pending()
	if err != nil {
		e.Fail("C17", "counter-error", "%s: Pending failed: %v", when, err)
		return
	}
	act, err := p.Q.Active()
	if err != nil {
		e.Fail("C17", "counter-error", "%s: Active failed: %v", when, err)
		return
	}
	if pend != F-A || int(act) != F-A {
		e.Fail("C17", "pending", "%s: Pending=%d Active=%d, expected flushed(%d) - ACKed(%d) = %d", when, pend, act, F, A, F-A)
		return
	}
	if p.rdActive {
		av, err := p.R.Available()
		if err != nil {
			e.Fail("C17", "counter-error", "%s: Available failed: %v", when, err)
			return
		}
		// an event counts as consumed once it has been read completely or skipped
		if int(av) != F-p.rdDone {
			e.Fail("C17", "available", "%s: Reader.Available=%d, expected flushed(%d) - consumed(%d) = %d", when, av, F, p.rdDone, F-p.rdDone)
			return
		}
		e.Probe("available_checked")
	}
	e.Probe("counters_checked")
}

// Drain reads all remaining events and verifies them; returns number delivered.
func (p *PQ) Drain(upTo int) int {
	n := 0
	if !p.rdActive {
		p.Apply(Op{K: "rbegin"})
	}
	for !p.E.Failed() {
		before := p.rdIdx
		p.Apply(Op{K: "rnext"})
		if p.rdIdx == before {
			break
		}
		for p.rdCur >= 0 && p.rdOff < p.Sizes[p.rdCur] && !p.E.Failed() {
			p.Apply(Op{K: "rread", A: 4096})
		}
		n++
	}
	p.Apply(Op{K: "rdone"})
	return n
}

// Close closes queue and file.
func (p *PQ) Close() {
	if p.Q != nil {
		if p.rdActive {
			p.R.Done()
			p.rdActive = false
		}
		p.Q.Close()
	}
	if p.F != nil {
		p.E.CloseFile(p.F)
	}
	p.F, p.Q, p.W, p.R = nil, nil, nil, nil
}

// ---------------------------------------------------------------------------
// generator

type PQGen struct {
	P   *PQ
	Rng *simsched.Rand
	// weights
	WWrite, WNext, WFlush, WRead, WAck, WReopen int
	MaxPagesPerEvent                           int
}

func NewPQGen(p *PQ, rng *simsched.Rand) *PQGen {
	return &PQGen{P: p, Rng: rng, WWrite: 30, WNext: 20, WFlush: 6, WRead: 40, WAck: 8, WReopen: 1, MaxPagesPerEvent: 3}
}

// evSize draws a boundary-biased event size.
func (g *PQGen) evSize() int {
	ps := g.P.Cfg.PageSize
	payload := ps - pqPageHeader
	r := g.Rng
	switch r.Intn(10) {
	case 0:
		return 1 + r.Intn(3)
	case 1:
		return payload - pqEventHeader - r.Intn(7) // ends at / just before the page end
	case 2:
		return max(1, payload-r.Intn(7))
	case 3:
		k := 1 + r.Intn(g.MaxPagesPerEvent)
		return max(1, k*payload-pqEventHeader-r.Intn(7))
	case 4:
		return payload + 1 + r.Intn(2*payload) // multi page
	case 5:
		return 1 + r.Intn(g.MaxPagesPerEvent*payload)
	default:
		return 1 + r.Intn(payload/2)
	}
}

func (g *PQGen) chunk(n int) int {
	switch g.Rng.Intn(6) {
	case 0:
		return 1
	case 1:
		return 1 + g.Rng.Intn(7)
	case 2:
		return n
	default:
		return 1 + g.Rng.Intn(n)
	}
}

// Next produces the next queue operation.
func (g *PQGen) Next() Op {
	p, r := g.P, g.Rng
	for {
		x := r.Intn(g.WWrite + g.WNext + g.WFlush + g.WRead + g.WAck + g.WReopen)
		if p.rdActive && !p.Concurrent {
			x = g.WWrite + g.WNext + g.WFlush // reader operations only until Done
		}
		switch {
		case x < g.WWrite:
			if p.curBytes > 0 && r.Intn(3) > 0 {
				// finish the current event most of the time
				return Op{K: "next"}
			}
			n := g.evSize()
			if r.Intn(4) == 0 && n > 2 {
				// only part of the event now
				part := 1 + r.Intn(n-1)
				return Op{K: "write", A: part, B: g.chunk(part)}
			}
			return Op{K: "write", A: n, B: g.chunk(n)}
		case x < g.WWrite+g.WNext:
			if p.curBytes == 0 {
				continue
			}
			return Op{K: "next"}
		case x < g.WWrite+g.WNext+g.WFlush:
			return Op{K: "flush"}
		case x < g.WWrite+g.WNext+g.WFlush+g.WRead:
			if !p.rdActive {
				return Op{K: "rbegin"}
			}
			switch {
			case p.rdCur >= 0 && p.rdOff < p.Sizes[p.rdCur] && r.Intn(8) > 0:
				rem := p.Sizes[p.rdCur] - p.rdOff
				switch r.Intn(5) {
				case 0:
					return Op{K: "rread", A: 1 + r.Intn(7)}
				case 1:
					return Op{K: "rread", A: rem}
				case 2:
					return Op{K: "rread", A: rem + 1 + r.Intn(64)}
				default:
					return Op{K: "rread", A: 1 + r.Intn(rem)}
				}
			case r.Intn(6) == 0:
				return Op{K: "rdone"}
			case r.Intn(10) == 0:
				return Op{K: "rread", A: 1 + r.Intn(32)} // read at the end of an event / without event
			default:
				return Op{K: "rnext"}
			}
		case x < g.WWrite+g.WNext+g.WFlush+g.WRead+g.WAck:
			if p.rdDone-p.acked <= 0 {
				continue
			}
			return Op{K: "ack", A: r.Intn(1 << 16)}
		default:
			if p.rdActive {
				return Op{K: "rdone"}
			}
			return Op{K: "reopen"}
		}
	}
}

// DrawPQCfg draws a queue configuration.
func DrawPQCfg(rng *simsched.Rand, bounded bool) Cfg {
	c := Cfg{}
	c.PageSize = []int{1024, 1024, 2048, 4096}[rng.Intn(4)]
	if bounded {
		c.MaxSize = []int{64, 96, 128, 160}[rng.Intn(4)] << 10
	} else if rng.Intn(3) == 0 {
		c.MaxSize = []int{256, 512, 1024}[rng.Intn(3)] << 10
	}
	c.InitMeta = []int{0, 0, 2, 4}[rng.Intn(4)]
	c.WriteBuf = []int{0, 0, 8, 16}[rng.Intn(4)] * c.PageSize
	c.PQObserver = rng.Intn(2) == 0
	if rng.Intn(5) == 0 {
		// the queue header shares its page with application data
		c.PQRootOff = []int{8, 64, 200, c.PageSize - pq.SzRoot, c.PageSize - pq.SzRoot - 4}[rng.Intn(5)]
	}
	if rng.Intn(16) == 0 {
		c.IDBase = []uint64{1<<63 - 1, 1<<63 - 3, 1<<63 - 9, ^uint64(0) - 2, ^uint64(0) - 7, 1<<32 - 2}[rng.Intn(6)] - uint64(rng.Intn(20))
	}
	c.Stick = []float64{0, 0.3, 0.6, 0.9, 0.98}[rng.Intn(5)]
	c.BgWeight = []float64{0.05, 0.3, 1, 1, 3, 10}[rng.Intn(6)]
	return c
}

// pqObserver is a recording stub for pq.Observer.
type pqObserver struct {
	p                         *PQ
	flushes, reads, acks, ini int
}

func (o *pqObserver) OnQueueInit(uintptr, uint32, uint) { o.ini++ }
func (o *pqObserver) OnQueueFlush(_ uintptr, st pq.FlushStats) {
	o.flushes++
	if st.Failed {
		o.p.E.Probe("observer_saw_failed_flush")
	}
}
func (o *pqObserver) OnQueueRead(uintptr, pq.ReadStats) { o.reads++ }
func (o *pqObserver) OnQueueACK(uintptr, pq.ACKStats)   { o.acks++ }

// rebaseIDs creates the queue root if needed and sets the event id counters of
// the empty queue (head, tail and read position ids of the root header, see
// pq/layout.go: version u32, then three (offset u64, id u64) positions).
func (p *PQ) rebaseIDs() error {
	if _, err := newQueueDelegate(p.F, p.Cfg); err != nil {
		return err
	}
	tx, err := p.F.Begin()
	if err != nil {
		return err
	}
	defer tx.Close()
	pg, err := tx.Page(tx.Root())
	if err != nil {
		return err
	}
	b, err := pg.Bytes()
	if err != nil {
		return err
	}
	nb := append([]byte(nil), b...)
	for _, off := range []int{p.Cfg.PQRootOff + 4, p.Cfg.PQRootOff + 20, p.Cfg.PQRootOff + 36} {
		if binary.LittleEndian.Uint64(nb[off:]) != 0 {
			return fmt.Errorf("queue is not empty: position at byte %d has a page offset", off)
		}
		binary.LittleEndian.PutUint64(nb[off+8:], p.Cfg.IDBase)
	}
	if err := pg.SetBytes(nb); err != nil {
		return err
	}
	return tx.Commit()
}

// sharedDelegate embeds the queue header at a byte offset of a page that also
// holds application data (pq.Delegate allows any root offset). The page is the
// file's root page. Transactions are configured like the standalone delegate's.
type sharedDelegate struct {
	file *txfile.File
	root txfile.PageID
	off  uintptr
}

// appByte is the application data pattern of the shared root page.
func appByte(i int) byte { return byte(0xA0 ^ (i * 7)) }

// newQueueDelegate returns the standalone delegate, or (Cfg.PQRootOff > 0) a
// delegate whose queue header sits inside a shared page.
func newQueueDelegate(f *txfile.File, cfg Cfg) (pq.Delegate, error) {
	if cfg.PQRootOff <= 0 {
		return pq.NewStandaloneDelegate(f)
	}
	tx, err := f.Begin()
	if err != nil {
		return nil, err
	}
	defer tx.Close()
	root := tx.Root()
	if root == 0 {
		page, err := tx.Alloc()
		if err != nil {
			return nil, err
		}
		buf := make([]byte, f.PageSize())
		for i := range buf {
			buf[i] = appByte(i)
		}
		hdr := pq.MakeRoot()
		copy(buf[cfg.PQRootOff:], hdr[:])
		if err := page.SetBytes(buf); err != nil {
			return nil, err
		}
		tx.SetRoot(page.ID())
		root = page.ID()
		if err := tx.Commit(); err != nil {
			return nil, err
		}
	}
	return &sharedDelegate{file: f, root: root, off: uintptr(cfg.PQRootOff)}, nil
}

func (d *sharedDelegate) PageSize() int                          { return d.file.PageSize() }
func (d *sharedDelegate) Root() (txfile.PageID, uintptr)         { return d.root, d.off }
func (d *sharedDelegate) Offset(id txfile.PageID, o uintptr) uintptr { return d.file.Offset(id, o) }
func (d *sharedDelegate) SplitOffset(o uintptr) (txfile.PageID, uintptr) {
	return d.file.SplitOffset(o)
}
func (d *sharedDelegate) BeginWrite() (*txfile.Tx, error) {
	return d.file.BeginWith(txfile.TxOptions{WALLimit: 3})
}
func (d *sharedDelegate) BeginRead() (*txfile.Tx, error) { return d.file.BeginReadonly() }
func (d *sharedDelegate) BeginCleanup() (*txfile.Tx, error) {
	return d.file.BeginWith(txfile.TxOptions{EnableOverflowArea: true, WALLimit: 3})
}

// checkAppData verifies that the application bytes around an embedded queue
// header are untouched.
func (p *PQ) checkAppData(when string) {
	if p.Cfg.PQRootOff <= 0 || p.F == nil || p.E.Failed() || p.rdActive {
		return
	}
	tx, err := p.F.BeginReadonly()
	if err != nil {
		p.fail("app-data", "%s: BeginReadonly failed: %v", when, err)
		return
	}
	defer tx.Close()
	pg, err := tx.Page(tx.Root())
	if err != nil {
		p.fail("app-data", "%s: root page not accessible: %v", when, err)
		return
	}
	b, err := pg.Bytes()
	if err != nil {
		p.fail("app-data", "%s: root page not readable: %v", when, err)
		return
	}
	for i := range b {
		if (i < p.Cfg.PQRootOff || i >= p.Cfg.PQRootOff+pq.SzRoot) && b[i] != appByte(i) {
			p.fail("app-data", "%s: byte %d of the page that holds the queue header at offset %d was changed (application data of the shared page)", when, i, p.Cfg.PQRootOff)
			return
		}
	}
	p.E.Probe("shared_root_page_checked")
}
