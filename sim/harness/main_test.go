package harness

import (
	"fmt"
	"os"
	"testing"
)

func TestMain(m *testing.M) {
	if os.Getenv("VERIF_WORKER") != "" {
		os.Exit(m.Run())
	}
	if v := os.Getenv("VERIF_RACE"); v != "" {
		// race side mode: VERIF_RACE=<prop>:<seed>:<seconds>
		var prop string
		var seed uint64
		var secs int
		fmt.Sscanf(v, "%3s:%d:%d", &prop, &seed, &secs)
		os.Exit(RaceMain(prop, seed, secs))
	}
	args := os.Args[1:]
	// allow "go test" style invocation without arguments (nothing to do)
	if len(args) == 0 || (len(args) > 0 && len(args[0]) > 0 && args[0][0] == '-') {
		os.Exit(m.Run())
	}
	os.Exit(DriverMain(args))
}

func TestWorker(t *testing.T) {
	raw := os.Getenv("VERIF_WORKER")
	if raw == "" {
		t.Skip("not a worker")
	}
	WorkerMain(t, raw)
}
