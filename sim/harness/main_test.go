package harness

import (
	"os"
	"testing"
)

func TestMain(m *testing.M) {
	if os.Getenv("VERIF_WORKER") != "" {
		os.Exit(m.Run())
	}
	args := os.Args[1:]
	// allow "go test" style invocation without arguments (nothing to do)
	if len(args) == 0 || (len(args) > 0 && len(args[0]) > 0 && args[0][0] == '-') {
		os.Exit(m.Run())
	}
	os.Exit(DriverMain(args))
}

func TestWorker(t *testing.T) {
	raw := os.Getenv("VERIF_WORKER")
	if raw == "" {
		t.Skip("not a worker")
	}
	WorkerMain(t, raw)
}
