package harness

import (
	"bytes"
	"encoding/binary"
	"fmt"
	"sort"

	txfile "github.com/elastic/go-txfile"

	"verifsim/simsched"
)

const stampMagic = 0x504d5453 // "STMP"

// Stamp creates self-identifying page content.
func Stamp(seed uint64, id PageID, ver uint32, size int) []byte {
	b := make([]byte, size)
	binary.LittleEndian.PutUint32(b[0:], stampMagic)
	binary.LittleEndian.PutUint32(b[4:], ver)
	binary.LittleEndian.PutUint64(b[8:], uint64(id))
	binary.LittleEndian.PutUint64(b[16:], seed)
	r := simsched.NewRand(simsched.Mix(seed, uint64(id), uint64(ver)))
	for i := 24; i+8 <= size; i += 8 {
		binary.LittleEndian.PutUint64(b[i:], r.Uint64())
	}
	return b
}

// DescribePage classifies page content for diagnostics.
func DescribePage(b []byte) string {
	if len(b) >= 24 && binary.LittleEndian.Uint32(b) == stampMagic {
		return fmt.Sprintf("stamp(id=%d ver=%d)", binary.LittleEndian.Uint64(b[8:]), binary.LittleEndian.Uint32(b[4:]))
	}
	if len(b) == 0 {
		return "empty"
	}
	same := true
	for _, c := range b[:min(64, len(b))] {
		if c != b[0] {
			same = false
			break
		}
	}
	if same {
		switch b[0] {
		case 0xDD:
			return "poison(unmapped view)"
		case 0xDB:
			return "poison(beyond EOF)"
		case 0:
			return "zeros"
		}
		return fmt.Sprintf("fill(0x%02x)", b[0])
	}
	return fmt.Sprintf("bytes(%x..)", b[:min(12, len(b))])
}

// State is one committed state of the file.
type State struct {
	N     int // number of successful user commits leading to this state
	Root  PageID
	Pages map[PageID][]byte // nil content = unknown (page allocated but never written)
	TxID  uint64            // header transaction id of this state
}

func (s *State) clone() *State {
	n := &State{N: s.N, Root: s.Root, TxID: s.TxID, Pages: make(map[PageID][]byte, len(s.Pages))}
	for k, v := range s.Pages {
		n.Pages[k] = v
	}
	return n
}

func (s *State) ids() []PageID {
	ids := make([]PageID, 0, len(s.Pages))
	for id := range s.Pages {
		ids = append(ids, id)
	}
	sort.Slice(ids, func(i, j int) bool { return ids[i] < ids[j] })
	return ids
}

// Equal compares two states (content-wise).
func (s *State) Equal(o *State) bool {
	if s.Root != o.Root || len(s.Pages) != len(o.Pages) {
		return false
	}
	for id, c := range s.Pages {
		oc, ok := o.Pages[id]
		if !ok || !bytes.Equal(c, oc) {
			return false
		}
	}
	return true
}

// pgState tracks one page inside the running write transaction.
type pgState struct {
	id      PageID
	h       *txfile.Page
	isNew   bool
	known   bool
	content []byte
	dirty   bool
	flushed bool
	freed   bool
}

// VerifyState reads the complete state through a transaction and compares it
// with the expected state. It returns a description of the first mismatch.
func VerifyState(tx *txfile.Tx, st *State) string {
	if r := tx.Root(); r != st.Root {
		return fmt.Sprintf("root is %d, expected %d (state #%d)", r, st.Root, st.N)
	}
	for _, id := range st.ids() {
		want := st.Pages[id]
		if want == nil {
			continue
		}
		p, err := tx.Page(id)
		if err != nil {
			return fmt.Sprintf("page %d of state #%d not accessible: %v", id, st.N, err)
		}
		got, err := p.Bytes()
		if err != nil {
			return fmt.Sprintf("page %d of state #%d not readable: %v", id, st.N, err)
		}
		if !bytes.Equal(got, want) {
			return fmt.Sprintf("page %d of state #%d holds %s, expected %s", id, st.N, DescribePage(got), DescribePage(want))
		}
	}
	return ""
}

// pageSetOf expands regions into a set.
func pageSetOf(regs []txfile.VerifRegion) map[PageID]bool {
	m := map[PageID]bool{}
	for _, r := range regs {
		for i := uint32(0); i < r.Count; i++ {
			m[r.ID+PageID(i)] = true
		}
	}
	return m
}

func countRegions(regs []txfile.VerifRegion) int {
	n := 0
	for _, r := range regs {
		n += int(r.Count)
	}
	return n
}

// Partition is the decomposition of the file's pages as seen by the allocator.
type Partition struct {
	DataFree, MetaFree, Internal map[PageID]bool
	DataEnd, MetaEnd             PageID
	MetaTotal                    int
	Snap                         txfile.VerifAllocState
}

func TakePartition(f *txfile.File) *Partition {
	s := txfile.VerifAllocSnapshot(f)
	p := &Partition{
		DataFree: pageSetOf(s.DataFree), MetaFree: pageSetOf(s.MetaFree),
		Internal: map[PageID]bool{}, DataEnd: s.DataEnd, MetaEnd: s.MetaEnd, MetaTotal: int(s.MetaTotal), Snap: s,
	}
	for id := range pageSetOf(s.FreelistPages) {
		p.Internal[id] = true
	}
	for id := range pageSetOf(s.WALMetaPages) {
		p.Internal[id] = true
	}
	for _, w := range s.WALMapping {
		p.Internal[w] = true
	}
	return p
}

// CheckDisjoint verifies the C04 partition invariant against the live set.
func (p *Partition) CheckDisjoint(live map[PageID][]byte) string {
	end := p.DataEnd
	if p.MetaEnd > end {
		end = p.MetaEnd
	}
	// duplicates inside region lists
	if n := countRegions(p.Snap.DataFree); n != len(p.DataFree) {
		return fmt.Sprintf("data free list contains overlapping regions (%d pages, %d distinct)", n, len(p.DataFree))
	}
	if n := countRegions(p.Snap.MetaFree); n != len(p.MetaFree) {
		return fmt.Sprintf("meta free list contains overlapping regions (%d pages, %d distinct)", n, len(p.MetaFree))
	}
	if uint(len(p.DataFree)) != p.Snap.DataAvail {
		return fmt.Sprintf("data free list counter %d != %d pages listed", p.Snap.DataAvail, len(p.DataFree))
	}
	if uint(len(p.MetaFree)) != p.Snap.MetaAvail {
		return fmt.Sprintf("meta free list counter %d != %d pages listed", p.Snap.MetaAvail, len(p.MetaFree))
	}
	nfl := countRegions(p.Snap.FreelistPages) + countRegions(p.Snap.WALMetaPages) + len(p.Snap.WALMapping)
	if nfl != len(p.Internal) {
		return fmt.Sprintf("internal pages overlap each other (%d listed, %d distinct)", nfl, len(p.Internal))
	}
	for id := range live {
		if id < 2 || id >= p.DataEnd {
			return fmt.Sprintf("live page %d outside data area [2,%d)", id, p.DataEnd)
		}
		if p.DataFree[id] {
			return fmt.Sprintf("live page %d is on the data free list", id)
		}
		if p.MetaFree[id] {
			return fmt.Sprintf("live page %d is on the meta free list", id)
		}
		if p.Internal[id] {
			return fmt.Sprintf("live page %d is used internally (WAL/freelist)", id)
		}
	}
	for id := range p.DataFree {
		if id < 2 || id >= end {
			return fmt.Sprintf("free data page %d outside file [2,%d)", id, end)
		}
		if p.MetaFree[id] {
			return fmt.Sprintf("page %d is on both free lists", id)
		}
		if p.Internal[id] {
			return fmt.Sprintf("internal page %d is on the data free list", id)
		}
	}
	for id := range p.MetaFree {
		if id < 2 || id >= end {
			return fmt.Sprintf("free meta page %d outside file [2,%d)", id, end)
		}
		if p.Internal[id] {
			return fmt.Sprintf("internal page %d is on the meta free list", id)
		}
	}
	for id := range p.Internal {
		if id < 2 || id >= end {
			return fmt.Sprintf("internal page %d outside file [2,%d)", id, end)
		}
	}
	return ""
}

// CheckCoverage verifies that every page in [2,end) belongs to exactly one set
// and that the meta accounting is consistent (C11).
func (p *Partition) CheckCoverage(live map[PageID][]byte) string {
	end := p.DataEnd
	if p.MetaEnd > end {
		end = p.MetaEnd
	}
	for id := PageID(2); id < end; id++ {
		_, l := live[id]
		if !l && !p.DataFree[id] && !p.MetaFree[id] && !p.Internal[id] {
			return fmt.Sprintf("page %d in [2,%d) is neither live, free nor internal (leaked)", id, end)
		}
	}
	if got := len(p.MetaFree) + len(p.Internal); got != p.MetaTotal {
		return fmt.Sprintf("meta area accounting: total=%d but free(%d)+in-use(%d)=%d", p.MetaTotal, len(p.MetaFree), len(p.Internal), got)
	}
	return ""
}
