package harness

import (
	"verifsim/simdisk"
	"fmt"
	"sort"
	"strings"

	txfile "github.com/elastic/go-txfile"

	"verifsim/simsched"
)

// allocSummary is the observable allocation state compared between twins.
type allocSummary struct {
	DataFree, MetaFree, Internal string
	DataEnd, MetaEnd             PageID
	MetaTotal                    int
	WAL                          string
}

func setString(m map[PageID]bool) string {
	ids := make([]PageID, 0, len(m))
	for id := range m {
		ids = append(ids, id)
	}
	sort.Slice(ids, func(i, j int) bool { return ids[i] < ids[j] })
	// compress into ranges
	var sb strings.Builder
	for i := 0; i < len(ids); {
		j := i
		for j+1 < len(ids) && ids[j+1] == ids[j]+1 {
			j++
		}
		if i == j {
			fmt.Fprintf(&sb, "%d ", ids[i])
		} else {
			fmt.Fprintf(&sb, "%d-%d ", ids[i], ids[j])
		}
		i = j + 1
	}
	return strings.TrimSpace(sb.String())
}

func summarize(f *txfile.File) allocSummary {
	p := TakePartition(f)
	var wal []string
	for k, v := range p.Snap.WALMapping {
		wal = append(wal, fmt.Sprintf("%d>%d", k, v))
	}
	sort.Strings(wal)
	return allocSummary{
		DataFree: setString(p.DataFree), MetaFree: setString(p.MetaFree), Internal: setString(p.Internal),
		DataEnd: p.DataEnd, MetaEnd: p.MetaEnd, MetaTotal: p.MetaTotal, WAL: strings.Join(wal, " "),
	}
}

func (a allocSummary) diff(b allocSummary) string {
	switch {
	case a.DataFree != b.DataFree:
		return fmt.Sprintf("free data pages {%s} vs {%s}", a.DataFree, b.DataFree)
	case a.MetaFree != b.MetaFree:
		return fmt.Sprintf("free meta pages {%s} vs {%s}", a.MetaFree, b.MetaFree)
	case a.DataEnd != b.DataEnd:
		return fmt.Sprintf("data end marker %d vs %d", a.DataEnd, b.DataEnd)
	case a.MetaEnd != b.MetaEnd:
		return fmt.Sprintf("meta end marker %d vs %d", a.MetaEnd, b.MetaEnd)
	case a.MetaTotal != b.MetaTotal:
		return fmt.Sprintf("meta area size %d vs %d", a.MetaTotal, b.MetaTotal)
	case a.Internal != b.Internal:
		return fmt.Sprintf("internal pages {%s} vs {%s}", a.Internal, b.Internal)
	case a.WAL != b.WAL:
		return fmt.Sprintf("overwrite mapping {%s} vs {%s}", a.WAL, b.WAL)
	}
	return ""
}

// capacityProbe counts how many pages can be allocated (one at a time) in a
// fresh write transaction, then rolls back.
func capacityProbe(r *Runner, limit int) (n int, err error) {
	tx, err := r.F.BeginWith(txfile.TxOptions{WALLimit: uint(r.Cfg.WALLimit), MetaAreaGrowPercentage: r.Cfg.GrowPct})
	if err != nil {
		return 0, err
	}
	for n < limit {
		if _, err := tx.Alloc(); err != nil {
			break
		}
		n++
	}
	return n, tx.Rollback()
}

// twin drives two runners: A executes everything, B only what the twin mode
// prescribes.
type twin struct {
	e        *Env
	prop     string
	a, b     *Runner
	tx       []Op // operations of the running transaction on A
	diverged bool
	metaTotalAtBegin int
	prog   []Op
	preset []Op
	overflowUsed bool
}

func (t *twin) compare(when string) {
	e := t.e
	if e.Failed() || t.a.F == nil || t.b.F == nil {
		return
	}
	if !t.a.Cur().Equal(t.b.Cur()) {
		e.Fail(t.prop, "twin-state", "%s: committed model states of the twins differ (A #%d, B #%d)", when, t.a.Cur().N, t.b.Cur().N)
		return
	}
	sa, sb := summarize(t.a.F), summarize(t.b.F)
	if d := sa.diff(sb); d != "" {
		e.Fail(t.prop, "twin-alloc", "%s: allocation state differs between the twins: %s", when, d)
		return
	}
	if t.a.Cfg.MaxSize > 0 {
		ca, errA := capacityProbe(t.a, 1<<20)
		cb, errB := capacityProbe(t.b, 1<<20)
		if errA != nil || errB != nil {
			e.Fail(t.prop, "twin-probe", "%s: capacity probe failed: %v / %v", when, errA, errB)
			return
		}
		if ca != cb {
			e.Fail(t.prop, "twin-capacity", "%s: twins can allocate %d vs %d pages", when, ca, cb)
			return
		}
		sa2, sb2 := summarize(t.a.F), summarize(t.b.F)
		if d := sa.diff(sa2); d != "" {
			e.Fail("C07", "twin-alloc", "%s: capacity probe (allocate until full, roll back) changed the allocation state: %s", when, d)
			return
		}
		_ = sb2
	}
	e.Probe("twin_compared")
}

// replayOnB executes a list of operations on B and compares outcomes with A's.
func (t *twin) replayOnB(ops []Op, outcomeA []string) {
	e := t.e
	start := len(t.b.Outcome)
	t.b.ver = t.a.VerAtBegin // same content versions as in A's transaction
	for _, op := range ops {
		if e.Failed() {
			return
		}
		t.b.Apply(op)
	}
	ob := t.b.Outcome[start:]
	if len(ob) != len(outcomeA) {
		e.Fail(t.prop, "twin-outcome", "twins disagree on operation outcomes: A %v, B %v", outcomeA, ob)
		return
	}
	for i := range ob {
		if ob[i] != outcomeA[i] {
			e.Fail(t.prop, "twin-outcome", "twins disagree on outcome %d of the transaction: A %q, B %q (A %v, B %v)", i, outcomeA[i], ob[i], outcomeA, ob)
			return
		}
	}
}

func twinCfg(e *Env, rng *simsched.Rand) *Cfg {
	cfg := DrawCfg(e.Rng("cfg"), 0)
	cfg.NTx = 4 + rng.Intn(14)
	cfg.NoYieldIO = rng.Intn(2) == 0
	return &cfg
}

func init() {
	probeNames["C07"] = []string{"twin_compared", "aborted_rollback", "aborted_close", "aborted_failed_commit", "aborted_after_flush", "aborted_with_meta_growth", "aborted_alloc_from_end", "aborted_alloc_from_freelist", "aborted_freed_new_page", "aborted_by_write_fault", "nearly_full_big_mapping_preset", "reopen"}
	register(&PropDef{
		ID: "C07", Level: "exploration", QuickSec: 50, ThoroSec: 900,
		Rule: "twin execution: run A executes a seeded history in which transactions end by Rollback, Close or a Commit that fails (out of space on bounded files, or an injected WriteAt failure / short write armed right before that Commit and cleared when it returns); run B executes only the transactions that committed. After every aborted transaction and after every later transaction the twins must agree on the committed model state, on the free data/meta page SETS, end markers, meta area size, internal pages, overwrite mapping, on the capacity probe (bounded files), on every operation outcome (returned page ids, errors) and on the state after reopen. Non-trivial = run with at least one aborted transaction that had allocated, freed or flushed pages; distinct = op list + config + schedule hash.",
		Real: defaultReal, Stub: defaultStub, Assume: defaultAssume,
		FaultKinds: []string{"write error inside the aborted transaction", "short write inside the aborted transaction", "out of space at commit"},
		Body: c07Body,
	})
	probeNames["C10"] = []string{"twin_compared", "reopen_point", "freelist_pages_ge2", "freelist_pages_ge3", "region_ge255", "wal_mapping_pages_ge2", "grown_past_initial_mapping"}
	register(&PropDef{
		ID: "C10", Level: "exploration", QuickSec: 50, ThoroSec: 900,
		Rule: "twin execution with generated clean restarts: run A executes a seeded program on one File instance, run B executes the same program with Close+Open interposed at seeded points between transactions. At every reopen point the allocator/WAL snapshot before Close must equal the one after Open and the model check must pass; afterwards the twins must agree on every operation outcome, on contents, on free page sets, on the capacity probe and on FileStats. Mixes are biased to fragmented free lists spanning several metadata pages, regions >= 255 pages, many pending overwrites and files grown past the initial mapping. Non-trivial = run with at least one reopen point at which the free list or overwrite mapping was non-empty; distinct = op list + config + reopen points + schedule hash.",
		Real: defaultReal, Stub: defaultStub, Assume: defaultAssume,
		Body: c10Body,
	})
}

func c07Body(e *Env) {
	c := e.Case
	rng := e.Rng("c07")
	if c.Cfg == nil {
		c.Cfg = twinCfg(e, rng)
		c.Cfg.Mix = []string{"rollback", "rollback", "alloc", "fragment", "big", "overwrite", "balanced"}[rng.Intn(7)]
		if rng.Intn(3) == 0 {
			c.Cfg.InitMeta = 0
		}
		if rng.Intn(3) == 0 { // small bounded: failing commits
			c.Cfg.MaxSize = 64 << 10
			c.Cfg.InitMeta = 0
		}
		if rng.Intn(20) == 0 {
			// preset: nearly full file, overwrite mapping about to need a second
			// metadata page, then an overflow-enabled transaction whose commit fails
			// from a write error (meta growth takes the last unused data pages and
			// overflow pages in one step)
			n1 := 69 + rng.Intn(5)
			// the meta area is sized such that the first batch of overwrites just
			// fits (or nearly), which leaves the unused data pages at the file end
			c.Cfg.PageSize, c.Cfg.MaxSize, c.Cfg.InitMeta = 1024, []int{192, 256}[rng.Intn(2)]<<10, n1+rng.Intn(6)
			c.Cfg.WALLimit, c.Cfg.Variant, c.Cfg.NTx = 1000, 5, 4
			ops := []Op{{K: "begin", A: 1}, {K: "allocfill", A: 1 + rng.Intn(3)}, {K: "commit"}, {K: "begin", A: 1}}
			for i := 0; i < n1; i++ {
				ops = append(ops, Op{K: "setfull", A: i})
			}
			ops = append(ops, Op{K: "commit"}, Op{K: "begin", A: 1})
			for i, n2 := 0, 1+rng.Intn(5); i < n2; i++ {
				ops = append(ops, Op{K: "setfull", A: n1 + i})
			}
			if rng.Intn(4) > 0 {
				ops = append(ops, Op{K: "faultarm", A: rng.Intn(2), B: rng.Intn(12)})
			}
			ops = append(ops, Op{K: "commit"}, Op{K: "begin", A: 1}, Op{K: "setfull", A: 3}, Op{K: "commit"}, Op{K: "begin"}, Op{K: "free", A: 5}, Op{K: "commit"})
			c.Tasks = map[string][]Op{"main": ops}
			e.Probe("nearly_full_big_mapping_preset")
		}
	}
	cfg := *c.Cfg
	a := NewRunner(e, e.NewDisk("A"), cfg)
	b := NewRunner(e, e.NewDisk("B"), cfg)
	a.AsProp, b.AsProp = "", ""
	t := &twin{e: e, prop: "C07", a: a, b: b}
	if err := a.Open(); err != nil {
		e.Fail("C07", "open-failed", "%v", err)
		return
	}
	if err := b.Open(); err != nil {
		e.Fail("C07", "open-failed", "%v", err)
		return
	}
	defer func() {
		c.Tasks = map[string][]Op{"main": a.Ops}
		a.Close()
		b.Close()
	}()
	g := NewGen(a, e.Rng("ops"), cfg.Mix)
	var explicit []Op
	if c.Tasks != nil {
		explicit = c.Tasks["main"]
		if explicit == nil {
			explicit = []Op{}
		}
	}
	frng := e.Rng("c07fault")
	var held *Op
	// writes queued by a Flush of a rolled back transaction may still sit in the
	// writer's queue: a fault armed for a commit could hit one of them instead of
	// a write of that commit (then it is reported by a later commit, see C08)
	staleFlush, txFlushed := false, false
	next := func() (Op, bool) {
		if explicit != nil {
			if len(explicit) == 0 {
				return Op{}, false
			}
			op := explicit[0]
			explicit = explicit[1:]
			return op, true
		}
		if held != nil {
			op := *held
			held = nil
			return op, true
		}
		op := g.Next()
		if a.InTx() && op.K == "commit" && !staleFlush && frng.Intn(6) == 0 {
			// a write failure inside this Commit: the transaction fails and must leave
			// no trace, like any other aborted transaction. (Not armed before
			// Tx.Flush + Rollback: the engine reports an asynchronous write error of
			// flushed pages at the next commit, which C08 allows and C07 does not
			// talk about.)
			held = &op
			return Op{K: "faultarm", A: frng.Intn(2), B: frng.Intn(6)}, true
		}
		return op, true
	}
	armed := false
	firedBefore := 0
	ended := 0
	var txOps []Op
	outStart := 0
	aborted := 0
	for !e.Failed() {
		if explicit == nil && ended >= cfg.NTx && !a.InTx() {
			break
		}
		op, ok := next()
		if !ok {
			break
		}
		if op.K == "reopen" {
			if a.Apply(op) {
				b.Apply(op)
				t.compare("after reopen of both twins")
			}
			continue
		}
		if op.K == "faultarm" {
			if a.InTx() && !armed {
				kind := []simdisk.FaultKind{simdisk.FWriteErr, simdisk.FWriteShort}[abs(op.A)%2]
				a.D.SetFaults([]simdisk.Fault{{Kind: kind, Nth: abs(op.B) % 64, Burst: 1}})
				a.Faulty, armed = true, true
				a.Ops = append(a.Ops, op)
			}
			continue
		}
		if op.K == "begin" {
			txOps = txOps[:0]
			outStart = len(a.Outcome)
			txFlushed = false
		}
		if op.K == "pflush" || op.K == "txflush" {
			txFlushed = true
		}
		// probes about the transaction body
		wasNewFreed := false
		if op.K == "free" && a.InTx() {
			before := 0
			for _, p := range a.txPages {
				if p.isNew && p.freed {
					before++
				}
			}
			defer func() {}()
			_ = before
		}
		_ = wasNewFreed
		commitsBefore := len(a.Hist)
		var usedFlush, metaGrew, fromEnd, fromFree, freedNew bool
		if a.InTx() && (op.K == "commit" || op.K == "rollback" || op.K == "closetx") {
			snap := txfile.VerifAllocSnapshot(a.F)
			for _, p := range a.txPages {
				if p.flushed {
					usedFlush = true
				}
				if p.isNew && p.id >= a.txDataEnd {
					fromEnd = true
				}
				if p.isNew && p.id < a.txDataEnd {
					fromFree = true
				}
				if p.isNew && p.freed {
					freedNew = true
				}
			}
			if int(snap.MetaTotal) != t.metaTotalAtBegin {
				metaGrew = true
			}
		}
		if !a.Apply(op) {
			continue
		}
		txOps = append(txOps, op)
		if op.K == "begin" {
			t.metaTotalAtBegin = int(txfile.VerifAllocSnapshot(a.F).MetaTotal)
		}
		e.Yield("op")
		switch op.K {
		case "commit", "rollback", "closetx":
			ended++
			faultFired := false
			if armed {
				faultFired = a.D.Fired[simdisk.FWriteErr]+a.D.Fired[simdisk.FWriteShort] > firedBefore
				firedBefore = a.D.Fired[simdisk.FWriteErr] + a.D.Fired[simdisk.FWriteShort]
				a.D.ClearFaults()
				a.Faulty, armed = false, false
			}
			if len(a.Hist) > commitsBefore {
				staleFlush = false
			} else if txFlushed && op.K != "commit" {
				staleFlush = true
			}
			if faultFired && len(a.Hist) == commitsBefore {
				e.Probe("aborted_by_write_fault")
				e.Res.Nontrivial = true
			}
			if len(a.Hist) > commitsBefore {
				// committed: B executes the same transaction
				t.replayOnB(txOps, append([]string(nil), a.Outcome[outStart:]...))
				t.compare(fmt.Sprintf("after committed transaction #%d", a.Cur().N))
			} else {
				aborted++
				switch {
				case op.K == "rollback":
					e.Probe("aborted_rollback")
				case op.K == "closetx":
					e.Probe("aborted_close")
				default:
					e.Probe("aborted_failed_commit")
				}
				if usedFlush {
					e.Probe("aborted_after_flush")
				}
				if metaGrew {
					e.Probe("aborted_with_meta_growth")
				}
				if fromEnd {
					e.Probe("aborted_alloc_from_end")
				}
				if fromFree {
					e.Probe("aborted_alloc_from_freelist")
				}
				if freedNew {
					e.Probe("aborted_freed_new_page")
				}
				if usedFlush || metaGrew || fromEnd || fromFree || freedNew {
					e.Res.Nontrivial = true
				}
				t.compare(fmt.Sprintf("after transaction aborted by %s (ops %v)", op.K, txOps))
			}
		}
	}
	if a.InTx() && !e.Failed() {
		a.Apply(Op{K: "rollback"})
		t.compare("after final rollback")
	}
	if !e.Failed() {
		a.Reopen()
		b.Reopen()
		t.compare("after final reopen of both twins")
	}
	e.Res.Sig = sigOf(a, uint64(cfg.PageSize), uint64(cfg.MaxSize), uint64(cfg.InitMeta))
}

func c10Body(e *Env) {
	c := e.Case
	rng := e.Rng("c10")
	if c.Cfg == nil {
		c.Cfg = twinCfg(e, rng)
		switch rng.Intn(6) {
		case 0: // fragmented free list over several freelist pages
			c.Cfg.Variant = 1
			c.Cfg.PageSize = 1024
			c.Cfg.MaxSize = []int{0, 1 << 20}[rng.Intn(2)]
		case 1: // big regions (>= 255 pages)
			c.Cfg.Variant = 2
			c.Cfg.PageSize = 1024
			c.Cfg.MaxSize = []int{0, 1 << 20}[rng.Intn(2)]
		case 2: // many pending overwrites
			c.Cfg.Variant = 3
			c.Cfg.PageSize = 1024
			c.Cfg.WALLimit = 1000
			c.Cfg.MaxSize = []int{0, 512 << 10}[rng.Intn(2)]
		}
	}
	cfg := *c.Cfg
	a := NewRunner(e, e.NewDisk("A"), cfg)
	b := NewRunner(e, e.NewDisk("B"), cfg)
	t := &twin{e: e, prop: "C10", a: a, b: b}
	if err := a.Open(); err != nil {
		e.Fail("C10", "open-failed", "%v", err)
		return
	}
	if err := b.Open(); err != nil {
		e.Fail("C10", "open-failed", "%v", err)
		return
	}
	defer func() {
		c.Tasks = map[string][]Op{"main": t.prog}
		a.Close()
		b.Close()
	}()
	g := NewGen(a, e.Rng("ops"), cfg.Mix)
	g.NoReopen = true
	var explicit []Op
	if c.Tasks != nil {
		explicit = c.Tasks["main"]
		if explicit == nil {
			explicit = []Op{}
		}
	} else {
		t.preset = c10Preset(cfg, rng)
	}
	ended := 0
	both := func(op Op) bool {
		sa := len(a.Outcome)
		sb := len(b.Outcome)
		if !a.Apply(op) {
			return false
		}
		b.Apply(op)
		t.prog = append(t.prog, op)
		if op.K == "begin" && (op.A == 1 || cfg.Overflow) {
			t.overflowUsed = true
		}
		oa, ob := a.Outcome[sa:], b.Outcome[sb:]
		if fmt.Sprint(oa) != fmt.Sprint(ob) {
			e.Fail("C10", "twin-outcome", "after B was closed and reopened the twins disagree on the outcome of %v: A %v, B %v", op, oa, ob)
		}
		return true
	}
	reopenB := func() {
		before := summarize(b.F)
		statsBefore := txfile.VerifFileStats(b.F)
		nonEmpty := before.DataFree != "" || before.WAL != "" || before.MetaFree != ""
		snap := txfile.VerifAllocSnapshot(b.F)
		if n := countRegions(snap.FreelistPages); n >= 2 {
			e.Probe("freelist_pages_ge2")
			if n >= 3 {
				e.Probe("freelist_pages_ge3")
			}
		}
		if countRegions(snap.WALMetaPages) >= 2 {
			e.Probe("wal_mapping_pages_ge2")
		}
		for _, rg := range append(append([]txfile.VerifRegion{}, snap.DataFree...), snap.MetaFree...) {
			if rg.Count >= 255 {
				e.Probe("region_ge255")
			}
		}
		if int(snap.DataEnd)*cfg.PageSize > 64<<10 && cfg.MaxSize == 0 {
			e.Probe("grown_past_initial_mapping")
		}
		t.prog = append(t.prog, Op{K: "reopenB"})
		b.Reopen()
		if e.Failed() {
			return
		}
		e.Probe("reopen_point")
		if nonEmpty {
			e.Res.Nontrivial = true
		}
		after := summarize(b.F)
		if d := before.diff(after); d != "" {
			e.Fail("C10", "reopen-alloc", "allocation state before Close differs from the state after Open: %s", d)
			return
		}
		statsAfter := txfile.VerifFileStats(b.F)
		statsBefore.Size, statsAfter.Size = 0, 0
		if statsBefore != statsAfter && cfg.MaxSize > 0 && !t.overflowUsed {
			// FileStats are only specified by C11 (bounded file, overflow area never enabled)
			e.Fail("C11", "reopen-stats", "FileStats before Close %+v differ from FileStats after Open %+v (live pages in model: %d)", statsBefore, statsAfter, len(b.Cur().Pages))
			return
		}
		t.compare("after reopening twin B")
	}
	for !e.Failed() {
		var op Op
		switch {
		case explicit != nil:
			if len(explicit) == 0 {
				goto done
			}
			op, explicit = explicit[0], explicit[1:]
		case len(t.preset) > 0:
			op, t.preset = t.preset[0], t.preset[1:]
		default:
			if ended >= cfg.NTx && !a.InTx() {
				goto done
			}
			if !a.InTx() && rng.Intn(100) < 30 {
				op = Op{K: "reopenB"}
			} else {
				op = g.Next()
			}
		}
		if op.K == "reopenB" {
			if !a.InTx() {
				reopenB()
			}
			continue
		}
		if both(op) {
			switch op.K {
			case "commit", "rollback", "closetx":
				ended++
				t.compareLight()
			}
		}
		e.Yield("op")
	}
done:
	if a.InTx() && !e.Failed() {
		both(Op{K: "rollback"})
	}
	if !e.Failed() {
		reopenB()
	}
	e.Res.Sig = sigOfOps(t.prog, uint64(cfg.PageSize), uint64(cfg.MaxSize), uint64(cfg.InitMeta))
}

func sigOfOps(ops []Op, extra ...uint64) uint64 {
	r := &Runner{Ops: ops}
	return sigOf(r, extra...)
}

// compareLight compares states and allocation summaries (no capacity probe).
func (t *twin) compareLight() {
	e := t.e
	if e.Failed() {
		return
	}
	if !t.a.Cur().Equal(t.b.Cur()) {
		e.Fail(t.prop, "twin-state", "committed model states of the twins differ (A #%d, B #%d)", t.a.Cur().N, t.b.Cur().N)
		return
	}
	if d := summarize(t.a.F).diff(summarize(t.b.F)); d != "" {
		e.Fail(t.prop, "twin-alloc", "allocation state differs between the never-closed twin A and the reopened twin B: %s", d)
	}
}

// c10Preset builds the state-building prefix of the biased variants.
func c10Preset(cfg Cfg, rng *simsched.Rand) []Op {
	var ops []Op
	switch cfg.Variant {
	case 1: // allocate many pages, free every other one => hundreds of regions
		n := 300 + rng.Intn(500)
		ops = append(ops, Op{K: "begin"})
		for left := n; left > 0; left -= 100 {
			ops = append(ops, Op{K: "allocn", A: min(left, 100)})
		}
		ops = append(ops, Op{K: "commit"}, Op{K: "begin"})
		// free(A) picks the A-th live clean page; freeing index i, then i+1 (the
		// list shrinks by one each time) frees every other page
		for i := 0; i < n/2; i++ {
			ops = append(ops, Op{K: "free", A: i})
		}
		ops = append(ops, Op{K: "commit"}, Op{K: "reopenB"})
	case 2: // big regions: allocate, then free a long contiguous run
		n := 254 + rng.Intn(6) + []int{0, 0, 300}[rng.Intn(3)]
		ops = append(ops, Op{K: "begin"}, Op{K: "allocn", A: 3})
		for left := n; left > 0; left -= 128 {
			ops = append(ops, Op{K: "allocn", A: min(left, 128)})
		}
		ops = append(ops, Op{K: "allocn", A: 2}, Op{K: "commit"}, Op{K: "begin"})
		for i := 0; i < n; i++ {
			ops = append(ops, Op{K: "free", A: 3})
		}
		ops = append(ops, Op{K: "commit"}, Op{K: "reopenB"})
	case 3: // many pending overwrites
		n := 80 + rng.Intn(120)
		ops = append(ops, Op{K: "begin"})
		for left := n; left > 0; left -= 64 {
			ops = append(ops, Op{K: "allocn", A: min(left, 64)})
		}
		for i := 0; i < n; i++ {
			ops = append(ops, Op{K: "setfull", A: i})
		}
		ops = append(ops, Op{K: "commit"}, Op{K: "begin"})
		for i := 0; i < n; i++ {
			ops = append(ops, Op{K: "setfull", A: i})
		}
		ops = append(ops, Op{K: "commit"}, Op{K: "reopenB"})
	}
	return ops
}
