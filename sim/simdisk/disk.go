// Package simdisk implements a simulated file for txfile: volatile content
// (page cache and mmap views), an operation log from which durable content and
// crash images are reconstructed, and injectable faults.
package simdisk

import (
	"errors"
	"fmt"
	"io"
	"unsafe"
)

// Kind of a logged operation.
type Kind uint8

const (
	OpWrite Kind = iota
	OpSync
	OpTruncate
	OpSize
	OpMMap
	OpMUnmap
	OpRead
	OpMarker
	OpClose
)

var kindNames = [...]string{"write", "sync", "truncate", "size", "mmap", "munmap", "read", "marker", "close"}

func (k Kind) String() string { return kindNames[k] }

// Op is one entry of the disk's operation log.
type Op struct {
	Seq   uint64
	Kind  Kind
	Off   int64
	Len   int
	Data  []byte // copy of the bytes that reached the cache (writes only)
	Size  int64  // truncate size / reported size / mmap size
	Err   bool   // the call returned an error
	Task  string // logical goroutine name
	Note  string // marker text
}

// FaultKind enumerates injectable failures.
type FaultKind uint8

const (
	FWriteErr   FaultKind = iota // WriteAt fails before any effect
	FWriteShort                  // WriteAt writes a prefix, then fails
	FSyncErr                     // Sync fails, pending writes stay pending
	FTruncErr                    // Truncate fails
	FSizeErr                     // Size fails
	FMMapErr                     // MMap fails
	FReadErr                     // ReadAt fails
	FMUnmapErr                   // MUnmap fails (after unmapping)
	FUnlockErr                   // Unlock fails (lock stays held)
	NumFaultKinds
)

var faultNames = [...]string{"write_err", "write_short", "sync_err", "truncate_err", "size_err", "mmap_err", "read_err", "munmap_err", "unlock_err"}

func (k FaultKind) String() string { return faultNames[k] }

// call classes used to index faults: each fault kind counts calls of its class.
func (k FaultKind) class() int {
	switch k {
	case FWriteErr, FWriteShort:
		return 0
	case FSyncErr:
		return 1
	case FTruncErr:
		return 2
	case FSizeErr:
		return 3
	case FMMapErr:
		return 4
	case FReadErr:
		return 5
	case FUnlockErr:
		return 7
	default:
		return 6
	}
}

// Fault describes one planned failure burst: calls number Nth .. Nth+Burst-1
// (0-based, counted per call class since the plan was armed) fail.
type Fault struct {
	Kind  FaultKind `json:"kind"`
	Nth   int       `json:"nth"`
	Burst int       `json:"burst"`
}

// ErrInjected is the root cause of every injected failure.
var ErrInjected = errors.New("simdisk: injected I/O error")

// Yielder is the scheduler interface used by the disk.
type Yielder interface {
	Yield(point string)
	NextSeq() uint64
	CurrentName() string
}

const (
	PoisonUnmapped = 0xDD // content of a view after MUnmap
	PoisonBeyond   = 0xDB // content of a view beyond the end of file
)

type view struct {
	buf []byte
}

// Disk is a simulated file.
type Disk struct {
	name  string
	Sched Yielder // may be nil (no yields, sequence numbers local)

	cache  []byte
	views  []*view
	Log    []Op
	locked bool
	closed bool
	seq    uint64

	// OnUnlock, if set, is called when the path lock is about to be released.
	OnUnlock func()
	// LogData controls whether write payloads are copied into the log.
	LogData bool
	// YieldIO enables scheduler yields before WriteAt and Sync.
	YieldIO bool

	faults    []Fault
	calls     [8]int
	Fired     [NumFaultKinds]int
	armed     bool
	ExtentMax int64

	// counters
	NWrites, NSyncs, NTruncs, NMMaps int
}

// New creates an empty simulated file.
func New(name string, sched Yielder) *Disk {
	return &Disk{name: name, Sched: sched, LogData: true, YieldIO: true}
}

// NewFromImage creates a simulated file with the given content (copied).
func NewFromImage(name string, sched Yielder, img []byte) *Disk {
	d := New(name, sched)
	d.cache = append([]byte(nil), img...)
	d.ExtentMax = int64(len(img))
	return d
}

// Content returns the current volatile content (not a copy).
func (d *Disk) Content() []byte { return d.cache }

// Snapshot returns a copy of the current volatile content.
func (d *Disk) Snapshot() []byte { return append([]byte(nil), d.cache...) }

// SetFaults arms a new fault plan; call counters restart at zero.
func (d *Disk) SetFaults(fs []Fault) {
	d.faults = append([]Fault(nil), fs...)
	d.calls = [8]int{}
	d.armed = len(fs) > 0
}

// ClearFaults removes all planned faults.
func (d *Disk) ClearFaults() { d.faults = nil; d.armed = false }

// FaultsPending reports whether a planned fault has not been (completely) used.
func (d *Disk) FaultsPending() bool {
	for _, f := range d.faults {
		if d.calls[f.Kind.class()] < f.Nth+f.Burst {
			return true
		}
	}
	return false
}

// Calls returns the number of calls seen per class since arming
// (0 write, 1 sync, 2 truncate, 3 size, 4 mmap, 5 read, 6 munmap).
func (d *Disk) Calls() [8]int { return d.calls }

func (d *Disk) fail(kinds ...FaultKind) (FaultKind, bool) {
	cls := kinds[0].class()
	n := d.calls[cls]
	d.calls[cls]++
	if !d.armed {
		return 0, false
	}
	for _, f := range d.faults {
		for _, k := range kinds {
			if f.Kind == k && n >= f.Nth && n < f.Nth+f.Burst {
				d.Fired[k]++
				return k, true
			}
		}
	}
	return 0, false
}

func (d *Disk) nextSeq() uint64 {
	if d.Sched != nil {
		return d.Sched.NextSeq()
	}
	d.seq++
	return d.seq
}

func (d *Disk) task() string {
	if d.Sched != nil {
		return d.Sched.CurrentName()
	}
	return ""
}

func (d *Disk) log(op Op) {
	op.Seq = d.nextSeq()
	op.Task = d.task()
	d.Log = append(d.Log, op)
}

// Marker appends a harness marker to the op log and returns its index.
func (d *Disk) Marker(note string) int {
	d.log(Op{Kind: OpMarker, Note: note})
	return len(d.Log) - 1
}

func (d *Disk) yield(point string) {
	if d.Sched != nil && d.YieldIO {
		d.Sched.Yield(point)
	}
}

func injected(what string) error { return fmt.Errorf("%s: %w", what, ErrInjected) }

// --- vfs.File mirror -------------------------------------------------------

func (d *Disk) Name() string { return d.name }

func (d *Disk) Close() error {
	d.closed = true
	d.log(Op{Kind: OpClose})
	return nil
}

func (d *Disk) Lock(exclusive, blocking bool) error {
	if d.locked {
		return errors.New("simdisk: already locked")
	}
	d.locked = true
	return nil
}

func (d *Disk) Unlock() error {
	if _, ok := d.fail(FUnlockErr); ok {
		return injected("unlock")
	}
	if !d.locked {
		return errors.New("simdisk: not locked")
	}
	if d.OnUnlock != nil {
		d.OnUnlock()
	}
	d.locked = false
	return nil
}

// ForceUnlock releases the simulated path lock (what the operating system does
// when the process holding a lock exits).
func (d *Disk) ForceUnlock() { d.locked = false }

// Locked reports the state of the simulated path lock.
func (d *Disk) Locked() bool { return d.locked }

func (d *Disk) Size() (int64, error) {
	if _, ok := d.fail(FSizeErr); ok {
		d.log(Op{Kind: OpSize, Err: true})
		return -1, injected("size")
	}
	d.log(Op{Kind: OpSize, Size: int64(len(d.cache))})
	return int64(len(d.cache)), nil
}

func (d *Disk) ReadAt(p []byte, off int64) (int, error) {
	if _, ok := d.fail(FReadErr); ok {
		d.log(Op{Kind: OpRead, Off: off, Len: len(p), Err: true})
		return 0, injected("read")
	}
	d.log(Op{Kind: OpRead, Off: off, Len: len(p)})
	if off >= int64(len(d.cache)) {
		return 0, io.EOF
	}
	n := copy(p, d.cache[off:])
	if n < len(p) {
		return n, io.EOF
	}
	return n, nil
}

func (d *Disk) resize(sz int64) {
	old := int64(len(d.cache))
	if sz == old {
		return
	}
	if sz < old {
		d.cache = d.cache[:sz]
		for _, v := range d.views {
			for i := sz; i < old && i < int64(len(v.buf)); i++ {
				v.buf[i] = PoisonBeyond
			}
		}
		return
	}
	if int64(cap(d.cache)) >= sz {
		d.cache = d.cache[:sz]
		for i := old; i < sz; i++ {
			d.cache[i] = 0
		}
	} else {
		nc := make([]byte, sz, sz+sz/2)
		copy(nc, d.cache)
		d.cache = nc
	}
	for _, v := range d.views {
		for i := old; i < sz && i < int64(len(v.buf)); i++ {
			v.buf[i] = 0
		}
	}
	if sz > d.ExtentMax {
		d.ExtentMax = sz
	}
}

func (d *Disk) apply(p []byte, off int64) {
	end := off + int64(len(p))
	if end > int64(len(d.cache)) {
		d.resize(end)
	}
	copy(d.cache[off:end], p)
	for _, v := range d.views {
		if off < int64(len(v.buf)) {
			copy(v.buf[off:], p)
		}
	}
}

func (d *Disk) WriteAt(p []byte, off int64) (int, error) {
	d.yield("disk:write")
	d.NWrites++
	if k, ok := d.fail(FWriteErr, FWriteShort); ok {
		if k == FWriteShort && len(p) > 1 {
			m := len(p) / 2
			d.apply(p[:m], off)
			op := Op{Kind: OpWrite, Off: off, Len: m, Err: true}
			if d.LogData {
				op.Data = append([]byte(nil), p[:m]...)
			}
			d.log(op)
			return m, injected("short write")
		}
		d.log(Op{Kind: OpWrite, Off: off, Len: 0, Err: true})
		return 0, injected("write")
	}
	d.apply(p, off)
	op := Op{Kind: OpWrite, Off: off, Len: len(p)}
	if d.LogData {
		op.Data = append([]byte(nil), p...)
	}
	d.log(op)
	return len(p), nil
}

func (d *Disk) Truncate(sz int64) error {
	d.NTruncs++
	if _, ok := d.fail(FTruncErr); ok {
		d.log(Op{Kind: OpTruncate, Size: sz, Err: true})
		return injected("truncate")
	}
	d.resize(sz)
	d.log(Op{Kind: OpTruncate, Size: sz})
	return nil
}

func (d *Disk) Sync(dataOnly bool) error {
	d.yield("disk:sync")
	d.NSyncs++
	if _, ok := d.fail(FSyncErr); ok {
		d.log(Op{Kind: OpSync, Err: true})
		return injected("sync")
	}
	d.log(Op{Kind: OpSync})
	return nil
}

func (d *Disk) MMap(sz int) ([]byte, error) {
	d.NMMaps++
	if _, ok := d.fail(FMMapErr); ok {
		d.log(Op{Kind: OpMMap, Size: int64(sz), Err: true})
		return nil, injected("mmap")
	}
	if sz < 0 || sz > 1<<30 {
		// a mapping of this size can only come from garbage in a header; the
		// simulator can not allocate it (a real mmap would succeed or ENOMEM)
		d.log(Op{Kind: OpMMap, Size: int64(sz), Err: true})
		return nil, fmt.Errorf("simdisk: mmap of %d bytes: cannot allocate memory", sz)
	}
	buf := make([]byte, sz)
	n := copy(buf, d.cache)
	for i := n; i < sz; i++ {
		buf[i] = PoisonBeyond
	}
	d.views = append(d.views, &view{buf: buf})
	d.log(Op{Kind: OpMMap, Size: int64(sz)})
	return buf, nil
}

func (d *Disk) MUnmap(b []byte) error {
	if len(b) == 0 {
		// munmap(NULL, 0) fails with EINVAL on a real system
		d.log(Op{Kind: OpMUnmap, Err: true})
		return errors.New("simdisk: munmap: invalid argument")
	}
	if len(b) > 0 {
		p := unsafe.SliceData(b)
		for i, v := range d.views {
			if unsafe.SliceData(v.buf) == p {
				for j := range v.buf {
					v.buf[j] = PoisonUnmapped
				}
				d.views = append(d.views[:i], d.views[i+1:]...)
				break
			}
		}
	}
	if _, ok := d.fail(FMUnmapErr); ok {
		d.log(Op{Kind: OpMUnmap, Err: true})
		return injected("munmap")
	}
	d.log(Op{Kind: OpMUnmap})
	return nil
}

// LiveViews returns the number of live mmap views.
func (d *Disk) LiveViews() int { return len(d.views) }

// --- durable state / crash images --------------------------------------------

// Pending describes a write or truncate that has not been made durable yet.
type Pending struct {
	Index int // index into the op log
}

// ImageBuilder walks an op log and reconstructs durable content and the
// pending set at every log index.
type ImageBuilder struct {
	log     []Op
	base    []byte // durable content at position pos (before applying pending)
	pending []int  // indices of write/truncate ops issued since the last successful sync
	pos     int    // number of log entries consumed
}

// NewImageBuilder starts at the beginning of log with initial content init.
func NewImageBuilder(log []Op, init []byte) *ImageBuilder {
	return &ImageBuilder{log: log, base: append([]byte(nil), init...)}
}

func applyOp(img []byte, op *Op, tear int) []byte {
	switch op.Kind {
	case OpWrite:
		data := op.Data
		if tear >= 0 && tear < len(data) {
			data = data[:tear]
		}
		end := op.Off + int64(len(data))
		if end > int64(len(img)) {
			if int64(cap(img)) >= end {
				old := len(img)
				img = img[:end]
				for i := old; i < int(end); i++ {
					img[i] = 0
				}
			} else {
				n := make([]byte, end, end+end/4)
				copy(n, img)
				img = n
			}
		}
		copy(img[op.Off:end], data)
	case OpTruncate:
		if op.Size <= int64(len(img)) {
			img = img[:op.Size]
		} else {
			old := len(img)
			if int64(cap(img)) >= op.Size {
				img = img[:op.Size]
				for i := old; i < int(op.Size); i++ {
					img[i] = 0
				}
			} else {
				n := make([]byte, op.Size)
				copy(n, img)
				img = n
			}
		}
	}
	return img
}

// Advance consumes log entries up to (not including) index k. Afterwards
// Base/PendingOps describe the state of a crash that happens just before log
// entry k is executed.
func (b *ImageBuilder) Advance(k int) {
	for b.pos < k && b.pos < len(b.log) {
		op := &b.log[b.pos]
		switch op.Kind {
		case OpWrite:
			if op.Len > 0 {
				b.pending = append(b.pending, b.pos)
			}
		case OpTruncate:
			if !op.Err {
				b.pending = append(b.pending, b.pos)
			}
		case OpSync:
			if !op.Err {
				for _, i := range b.pending {
					b.base = applyOp(b.base, &b.log[i], -1)
				}
				b.pending = b.pending[:0]
			}
		}
		b.pos++
	}
}

// Pos returns the number of consumed entries.
func (b *ImageBuilder) Pos() int { return b.pos }

// PendingOps returns the log indices of the pending operations (do not modify).
func (b *ImageBuilder) PendingOps() []int { return b.pending }

// Durable returns a copy of the durable content.
func (b *ImageBuilder) Durable() []byte { return append([]byte(nil), b.base...) }

// Image builds the content that results from keeping the pending operations
// selected by keep (indices into PendingOps) in issue order. tearIdx selects
// one kept pending op (index into PendingOps, -1 for none) of which only the
// first tearLen bytes are applied.
func (b *ImageBuilder) Image(keep []bool, tearIdx, tearLen int) []byte {
	img := make([]byte, len(b.base), len(b.base)+len(b.base)/4+4096)
	copy(img, b.base)
	for j, i := range b.pending {
		if !keep[j] {
			continue
		}
		t := -1
		if j == tearIdx {
			t = tearLen
		}
		img = applyOp(img, &b.log[i], t)
	}
	return img
}

// DurableImage computes the durable content of a complete log.
func DurableImage(log []Op, init []byte) []byte {
	b := NewImageBuilder(log, init)
	b.Advance(len(log))
	return b.Durable()
}
